"""Engine C (mpisim) shared code: byte patterns, platform files, plan -> per-rank op lists, runner, log parser,
history oracles (point-to-point, datatypes, communicators, partial shared buffers, privatised globals), statistics,
signature, shrinking and the seeded generator. Checks c28/c30/c32/c35/c36 are thin profiles over this module.

High level plan (JSON):
  np, cfg {smpi option: value}, plat {...}, hostmap [host index per rank], types [type descriptions, see refmpi],
  setup [communicator / group steps, SPMD], psm {str(rank): {'s': layout, 'r': layout}} (C35), gvars (C36),
  items [global order of: message | barrier | coll(step) | pack test], see build().
Everything an oracle needs is recomputed from the plan by build(); the interpreter only executes."""
import os
import shutil

import dst
import refmpi as R
from rng import Rng

ANY = R.ANY
TABM = 65521
GUARD = 16
POOLSZ = 4096
TYPE_SLOT0 = 10
SB_HEAP, RB_HEAP, POOL0, NPOOLS, SB_PSM, RB_PSM, PACKB = 0, 1, 2, 8, 18, 19, 20


def sg_root():
    return os.environ.get('VERIF_SG', dst.SG)


def mpisim_bin():
    return os.environ.get('VERIF_MPISIM', dst.BIN + '/mpisim')


# ---------------------------------------------------------------------------------------------------------
# byte patterns (must mirror sim/mpisim.c)
# ---------------------------------------------------------------------------------------------------------
def _mk_tab():
    x = 12345
    out = bytearray(TABM)
    for i in range(TABM):
        x = (x * 1103515245 + 12345) & 0xFFFFFFFF
        out[i] = (x >> 16) & 0xFF
    return bytes(out)


TAB = _mk_tab()
TAB3 = TAB * 3
_XOR = {}


def _xor(data, k):
    if k == 0:
        return data
    t = _XOR.get(k)
    if t is None:
        t = _XOR[k] = bytes(i ^ k for i in range(256))
    return data.translate(t)


def _tabslice(start, n):
    start %= TABM
    if n <= 2 * TABM:
        return TAB3[start:start + n]
    return bytes(TAB[(start + i) % TABM] for i in range(n))


def pat_msg(m, n, start=0):
    return _xor(_tabslice((m * 7919) % TABM + start, n), (m * 31) & 255)


def pat_canary(rank, b, off, n):
    return _xor(_tabslice(off + 977 * b + 131 * rank + 7, n), 0x5a)


def pat_poison(n):
    return _xor(_tabslice(31337, n), 0xff)


# ---------------------------------------------------------------------------------------------------------
# platform
# ---------------------------------------------------------------------------------------------------------
def platform_xml(plat):
    h = ['<?xml version="1.0"?>', '<!DOCTYPE platform SYSTEM "https://simgrid.org/simgrid.dtd">',
         '<platform version="4.1">']
    if plat['kind'] == 'cluster':
        extra = ''
        if plat.get('bb_bw'):
            extra += ' bb_bw="%dBps" bb_lat="%gs"' % (plat['bb_bw'], plat['bb_lat'])
        if plat.get('lo_bw'):
            extra += ' loopback_bw="%dBps" loopback_lat="%gs"' % (plat['lo_bw'], plat['lo_lat'])
        h.append(' <zone id="AS0" routing="Full">')
        h.append('  <cluster id="c" prefix="n" suffix="" radical="0-%d" speed="%gf" bw="%dBps" lat="%gs"%s/>' %
                 (plat['nh'] - 1, plat['speed'], plat['bw'], plat['lat'], extra))
        h.append(' </zone>')
    else:
        h.append(' <zone id="AS0" routing="Full">')
        for i in range(plat['nh']):
            h.append('  <host id="n%d" speed="%gf"/>' % (i, plat['speeds'][i]))
        for i in range(plat['nh']):
            h.append('  <link id="l%d" bandwidth="%dBps" latency="%gs"/>' % (i, plat['bws'][i], plat['lats'][i]))
            h.append('  <link id="lo%d" bandwidth="%dBps" latency="%gs" sharing_policy="FATPIPE"/>' %
                     (i, plat['lo_bw'], plat['lo_lat']))
        for i in range(plat['nh']):
            h.append('  <route src="n%d" dst="n%d"><link_ctn id="lo%d"/></route>' % (i, i, i))
            for j in range(i + 1, plat['nh']):
                h.append('  <route src="n%d" dst="n%d"><link_ctn id="l%d"/><link_ctn id="l%d"/></route>' % (i, j, i, j))
        h.append(' </zone>')
    h.append('</platform>')
    return '\n'.join(h) + '\n'


def gen_platform(rg, np_):
    nh = rg.randint(max(1, np_ // 2), np_)
    hostmap = [i % nh for i in range(np_)]
    if rg.chance(0.4):
        rg.shuffle(hostmap)
    lat = rg.choice([1e-6, 5e-6, 2e-5, 5e-5, 2e-4])
    bw = rg.choice([10 ** 6, 12500000, 125000000, 1250000000])
    if rg.chance(0.6):
        plat = dict(kind='cluster', nh=nh, speed=rg.choice([1e8, 1e9, 1e10]), bw=bw, lat=lat)
        if rg.chance(0.3):
            plat['bb_bw'] = bw * rg.choice([1, 4])
            plat['bb_lat'] = lat * rg.choice([0.5, 2])
        if rg.chance(0.3):
            plat['lo_bw'] = 498000000
            plat['lo_lat'] = rg.choice([1e-7, 4e-6, 1e-4])
    else:
        plat = dict(kind='star', nh=nh, speeds=[rg.choice([1e8, 1e9, 1e10]) for _ in range(nh)],
                    bws=[bw * rg.choice([1, 2, 10]) for _ in range(nh)],
                    lats=[lat * rg.choice([0.25, 1, 1, 3, 8]) for _ in range(nh)],
                    lo_bw=498000000, lo_lat=rg.choice([1e-7, 4e-6]))
    return plat, hostmap


# ---------------------------------------------------------------------------------------------------------
# running one plan
# ---------------------------------------------------------------------------------------------------------
_RUN_SEQ = [0]


def plan_text(built):
    out = ['np %d' % built.np]
    if built.plan.get('gvars'):
        out.append('gvars 1')
    for r in range(built.np):
        out.append('rank %d' % r)
        for name, args, _ in built.ops[r]:
            out.append(name + ''.join(' %d' % a for a in args))
        out.append('end')
    return '\n'.join(out) + '\n'


def command(plan, d):
    sg = sg_root()
    cfg = plan['cfg']
    cmd = [sg + '/lib/simgrid/smpimain', mpisim_bin(),
           '--cfg=smpi/np:%d' % plan['np'], '--cfg=smpi/hostfile:hf', '--cfg=precision/timing:1e-9',
           '--cfg=smpi/tmpdir:.', '--cfg=smpi/simulate-computation:no',
           '--log=xbt_cfg.thres:warning', '--log=smpi_config.thres:warning', '--log=smpi_utils.thres:error',
           '--log=no_loc']
    if 'network/model' not in cfg:
        cmd.append('--cfg=network/model:SMPI')
    for k in sorted(cfg):
        cmd.append('--cfg=%s:%s' % (k, cfg[k]))
    cmd += ['plat.xml', 'plan.txt']       # relative to the run directory (cwd): identical argv for every run
    return cmd


def run_plan(plan, scratch, timeout=None, keep=False, _retry=0):
    """-> dict(rc, log (str), err (str), timed_out, cmd). Raises dst.Infra when the harness itself is missing/broken."""
    sg = sg_root()
    if not os.path.exists(sg + '/lib/simgrid/smpimain') or not os.path.exists(mpisim_bin()):
        raise dst.Infra('smpimain or mpisim missing (%s, %s)' % (sg, mpisim_bin()))
    built = build(plan)
    if timeout is None:
        timeout = float(os.environ.get('VERIF_MPISIM_TIMEOUT', 60))
    _RUN_SEQ[0] += 1
    d = '%s/m%d' % (scratch, _RUN_SEQ[0])
    os.makedirs(d, exist_ok=True)
    try:
        with open(d + '/plan.txt', 'w') as f:
            f.write(plan_text(built))
        with open(d + '/plat.xml', 'w') as f:
            f.write(platform_xml(plan['plat']))
        with open(d + '/hf', 'w') as f:
            f.write(''.join('n%d\n' % h for h in plan['hostmap']))
        cmd = command(plan, d)
        rc, out, err, to = run_watch(cmd, d, timeout, {'LD_LIBRARY_PATH': sg + '/lib'})
    finally:
        if not keep:
            shutil.rmtree(d, ignore_errors=True)
    err = err.decode(errors='replace')
    if rc == 127 or 'error while loading shared libraries' in err or 'cannot open shared object' in err:
        # bin/vbuild relinks the library in place: wait for it instead of failing the campaign
        import time
        if _retry < 40:
            time.sleep(3)
            return run_plan(plan, scratch, timeout, keep, _retry + 1)
        raise dst.Infra('loader failure (library being rebuilt?): ' + err[-300:])
    if rc == 97 or 'MPISIM-FATAL' in err:
        raise dst.Infra('interpreter rejected the plan: ' + err[-600:])
    if to == 'wall':
        raise dst.Infra('mpisim run exceeded the wall budget of %ds' % timeout)
    return dict(rc=rc, log=out.decode(errors='replace'), err=err, cmd=cmd, built=built)


HANG_CPU = 5.0


def _cpu_seconds(pid):
    try:
        with open('/proc/%d/stat' % pid) as f:
            st = f.read().rsplit(')', 1)[1].split()
        return (int(st[11]) + int(st[12])) / float(os.sysconf('SC_CLK_TCK'))
    except (OSError, IndexError, ValueError):
        return None


_LIBC = []


def _no_aslr():
    # address-space randomisation off: when the code under test reads memory it does not own (observed with derived
    # datatypes), what it finds there must not change from run to run, or replays would not be exact
    import ctypes
    if not _LIBC:
        _LIBC.append(ctypes.CDLL(None, use_errno=True))
    _LIBC[0].personality(0x0040000)
    _LIBC[0].prctl(1, 9, 0, 0, 0)   # PR_SET_PDEATHSIG = SIGKILL: a run never outlives the worker that started it


def run_watch(cmd, d, timeout, env):
    """run the simulation with stdout/stderr in files; a run that burns HANG_CPU seconds of CPU without writing a
    log line is a livelock (MPI_Probe polls forever in simulated time, so SimGrid's deadlock detector never fires):
    it is killed and reported as ('hang'). Returns (rc, out, err, to) with to in (False, 'hang', 'wall')."""
    import signal
    import subprocess
    import time
    e = dict(os.environ)
    e.update(env)
    fo = open(d + '/out.log', 'wb')
    fe = open(d + '/err.log', 'wb')
    try:
        p = subprocess.Popen(cmd, stdin=subprocess.DEVNULL, stdout=fo, stderr=fe, env=e, cwd=d, start_new_session=True,
                             preexec_fn=_no_aslr)
    except OSError as ex:
        fo.close()
        fe.close()
        return 127, b'', ('error while loading shared libraries: cannot start smpimain: %s' % ex).encode(), False
    t0 = time.time()
    last_size = -1
    cpu_mark = 0.0
    to = False
    delay = 0.002
    while True:
        rc = p.poll()
        if rc is not None:
            break
        time.sleep(delay)
        delay = min(delay * 1.5, 0.1)
        now = time.time()
        if now - t0 > 0.5:
            size = os.fstat(fo.fileno()).st_size
            cpu = _cpu_seconds(p.pid)
            if size != last_size:
                last_size = size
                cpu_mark = cpu if cpu is not None else 0.0
            elif cpu is not None and cpu - cpu_mark > HANG_CPU:
                to = 'hang'
            if now - t0 > timeout:
                to = 'wall'
            if to:
                try:
                    os.killpg(p.pid, signal.SIGKILL)
                except ProcessLookupError:
                    pass
                p.wait()
                rc = -9
                break
    fo.close()
    fe.close()
    with open(d + '/out.log', 'rb') as f:
        out = f.read()
    with open(d + '/err.log', 'rb') as f:
        err = f.read()
    return rc, out, err, to


class Line:
    __slots__ = ('rank', 'idx', 'name', 't', 'f', 'gpos')

    def __init__(self, rank, idx, name, t, f, gpos):
        self.rank, self.idx, self.name, self.t, self.f, self.gpos = rank, idx, name, t, f, gpos


def parse_log(text, np_):
    """-> (per_rank: list of dict idx->Line, order: [Line] in execution order)"""
    per = [dict() for _ in range(np_)]
    order = []
    for ln in text.split('\n'):
        if not ln:
            continue
        f = ln.split()
        try:
            rank, idx = int(f[0]), int(f[1])
            t = float.fromhex(f[3])
        except (ValueError, IndexError):
            continue
        if not 0 <= rank < np_:
            continue
        L = Line(rank, idx, f[2], t, f[4:], len(order))
        per[rank][idx] = L
        order.append(L)
    return per, order


def parse_status(f, i):
    """f[i] == 'S' ; returns (dict, next index)"""
    assert f[i] == 'S', f[i:i + 3]
    st = dict(src=int(f[i + 1]), tag=int(f[i + 2]), err=f[i + 3], bytes=int(f[i + 4]), cnt=f[i + 5], canc=int(f[i + 6]))
    return st, i + 7


def parse_dump(f):
    """fields after the time of a dump line: ['D', n, 'pos:hex', ...] -> list of (pos, bytes)"""
    assert f[0] == 'D'
    n = int(f[1])
    runs = []
    for tok in f[2:2 + n]:
        p, hx = tok.split(':')
        runs.append((int(p), bytes.fromhex(hx)))
    return runs


def classify_exit(res, np_, per):
    """None when every rank finished; else (class, detail)"""
    fin = all(any(L.name == 'fini' for L in per[r].values()) for r in range(np_))
    if res['rc'] == 0 and fin:
        return None
    err = res['err']
    if res['rc'] == -9:
        return ('hang', 'simulation livelocked: no rank progressed while simulated time kept advancing (MPI_Probe polling)')
    if 'Deadlock' in err or 'deadlock' in err:
        return ('deadlock', _first_err(err))
    cls = {-8: 'crash-fpe', -11: 'crash-segv', -7: 'crash-bus'}.get(res['rc'], 'abort')
    return (cls, 'exit status %s: %s' % (res['rc'], _first_err(err)))


def _first_err(err):
    keep = [l for l in err.split('\n') if l and 'Configuration change' not in l]
    for l in keep:
        if 'rror' in l or 'ssert' in l or 'Deadlock' in l or 'CRITICAL' in l or 'Segmentation' in l:
            return l[:300]
    return (keep[-1] if keep else '')[:300]


# ---------------------------------------------------------------------------------------------------------
# plan -> per-rank op lists (+ metadata for the oracles)
# ---------------------------------------------------------------------------------------------------------
SEND_NAMES = ['Send', 'Ssend', 'Bsend', 'Rsend', 'Isend', 'Issend', 'Ibsend', 'Irsend']


def tdesc(plan, tref):
    return ['b', tref] if isinstance(tref, str) else plan['types'][tref]


class Built:
    pass


def ref_setup_step(np_, comm, grp, st):
    """apply one communicator/group step to the reference state (comm[r][slot], grp[r][slot]);
    returns per-rank (opname, args, meta) or None when the rank does not execute the step"""
    out = [None] * np_
    op = st['op']
    if op == 'split':
        old = st['old']
        inst = {}
        for r in range(np_):
            g = comm[r].get(old)
            if g is not None:
                inst.setdefault(tuple(g), g)
        res = {}
        for g in inst.values():
            res.update(R.comm_split(g, {w: st['color'][w] for w in g}, {w: st['key'][w] for w in g}))
        for r in range(np_):
            if comm[r].get(old) is None:
                continue
            comm[r][st['new']] = res[r]
            c = st['color'][r]
            out[r] = ('csplit', [st['new'], old, -1 if c == R.UNDEFINED else c, st['key'][r]],
                      dict(r='comm', exp=res[r], slot=st['new'], old=old, ins=[('c', old)], out=('c', st['new'])))
    elif op == 'dup':
        for r in range(np_):
            g = comm[r].get(st['old'])
            if g is None:
                continue
            comm[r][st['new']] = list(g)
            out[r] = ('cdup', [st['new'], st['old']], dict(r='comm', exp=list(g), slot=st['new'], old=st['old'], ins=[('c', st['old'])], out=('c', st['new'])))
    elif op == 'create':
        for r in range(np_):
            g = comm[r].get(st['old'])
            if g is None:
                continue
            gs = st['gmap'][r] if 'gmap' in st else st['g']
            gl = [] if gs == -1 else grp[r].get(gs)
            if gl is None:
                raise ValueError('create with undefined group')
            res = list(gl) if r in gl else None
            comm[r][st['new']] = res
            out[r] = ('ccreate', [st['new'], st['old'], gs], dict(r='comm', exp=res, slot=st['new'], old=st['old'], ins=[('c', st['old']), ('g', gs)], out=('c', st['new'])))
    elif op == 'cfree':
        for r in range(np_):
            if comm[r].get(st['c']) is not None:
                comm[r][st['c']] = None
                out[r] = ('cfree', [st['c']], dict(r='rc'))
    elif op == 'ccmp':
        for r in range(np_):
            a, b = comm[r].get(st['a']), comm[r].get(st['b'])
            if a is None or b is None:
                continue
            if st['a'] == st['b']:
                e = 'ident'
            else:
                e = {'ident': 'congruent', 'similar': 'similar', 'unequal': 'unequal'}[R.g_compare(a, b)]
            out[r] = ('ccmp', [st['a'], st['b']], dict(r='cmp', exp=e, ins=[('c', st['a']), ('c', st['b'])]))
    elif op == 'cgroup':
        for r in range(np_):
            g = comm[r].get(st['c'])
            if g is None:
                continue
            grp[r][st['g']] = list(g)
            out[r] = ('cgroup', [st['g'], st['c']], dict(r='group', exp=list(g), ins=[('c', st['c'])], out=('g', st['g'])))
    elif op in ('gincl', 'gexcl', 'grincl', 'grexcl'):
        for r in range(np_):
            g = grp[r].get(st['from'])
            if g is None:
                continue
            if op == 'gincl':
                res, args = R.g_incl(g, st['ranks']), [len(st['ranks'])] + list(st['ranks'])
            elif op == 'gexcl':
                res, args = R.g_excl(g, st['ranks']), [len(st['ranks'])] + list(st['ranks'])
            elif op == 'grincl':
                res, args = R.g_range_incl(g, st['ranges']), [len(st['ranges'])] + [x for t in st['ranges'] for x in t]
            else:
                res, args = R.g_range_excl(g, st['ranges']), [len(st['ranges'])] + [x for t in st['ranges'] for x in t]
            grp[r][st['g']] = res
            out[r] = (op, [st['g'], st['from']] + args, dict(r='group', exp=res, ins=[('g', st['from'])], out=('g', st['g'])))
    elif op in ('gunion', 'ginter', 'gdiff'):
        fn = {'gunion': R.g_union, 'ginter': R.g_intersection, 'gdiff': R.g_difference}[op]
        for r in range(np_):
            a = [] if st['a'] == -1 else grp[r].get(st['a'])
            b = [] if st['b'] == -1 else grp[r].get(st['b'])
            if a is None or b is None:
                continue
            res = fn(a, b)
            grp[r][st['g']] = res
            out[r] = (op, [st['g'], st['a'], st['b']], dict(r='group', exp=res, ins=[('g', st['a']), ('g', st['b'])], out=('g', st['g'])))
    elif op == 'gtrans':
        for r in range(np_):
            a, b = grp[r].get(st['a']), grp[r].get(st['b'])
            if a is None or b is None or any(x >= len(a) for x in st['ranks']):
                continue
            out[r] = ('gtrans', [st['a'], st['b'], len(st['ranks'])] + list(st['ranks']),
                      dict(r='gtrans', exp=R.g_translate(a, st['ranks'], b), ins=[('g', st['a']), ('g', st['b'])]))
    elif op == 'gcmp':
        for r in range(np_):
            a = [] if st['a'] == -1 else grp[r].get(st['a'])
            b = [] if st['b'] == -1 else grp[r].get(st['b'])
            if a is None or b is None:
                continue
            out[r] = ('gcmp', [st['a'], st['b']], dict(r='cmp', exp=R.g_compare(a, b), ins=[('g', st['a']), ('g', st['b'])]))
    elif op == 'ginfo':
        for r in range(np_):
            g = grp[r].get(st['g'])
            if g is None:
                continue
            out[r] = ('ginfo', [st['g']], dict(r='ginfo', exp=list(g), rank=(g.index(r) if r in g else R.UNDEFINED), ins=[('g', st['g'])]))
    elif op == 'gfree':
        for r in range(np_):
            if grp[r].get(st['g']) is not None:
                grp[r][st['g']] = None
                out[r] = ('gfree', [st['g']], dict(r='rc'))
    else:
        raise ValueError('unknown setup step %r' % op)
    return out


def _type_ops(desc, alloc, ops):
    """emit constructor ops for a type tree (children first); returns the slot of the root"""
    k = desc[0]
    if k == 'b':
        return R.BASE_SLOT[desc[1]]
    if k == 'struct':
        subs = [_type_ops(s, alloc, ops) for s in desc[3]]
        slot = alloc()
        ops.append(('tstruct', [slot, len(subs)] + list(desc[1]) + list(desc[2]) + subs, dict(r='type', desc=desc)))
        return slot
    if k == 'resized':
        sub = _type_ops(desc[1], alloc, ops)
        slot = alloc()
        ops.append(('tresized', [slot, sub, desc[2], desc[3]], dict(r='type', desc=desc)))
        return slot
    sub = _type_ops(desc[-1], alloc, ops)
    slot = alloc()
    if k == 'contig':
        a = [slot, desc[1], sub]
        nm = 'tcontig'
    elif k == 'vector':
        a = [slot, desc[1], desc[2], desc[3], sub]
        nm = 'tvector'
    elif k == 'hvector':
        a = [slot, desc[1], desc[2], desc[3], sub]
        nm = 'thvector'
    elif k in ('indexed', 'hindexed'):
        a = [slot, len(desc[1])] + list(desc[1]) + list(desc[2]) + [sub]
        nm = 't' + k
    elif k == 'indexed_block':
        a = [slot, len(desc[2]), desc[1]] + list(desc[2]) + [sub]
        nm = 'tindexed_block'
    elif k == 'subarray':
        a = [slot, len(desc[1])] + list(desc[1]) + list(desc[2]) + list(desc[3]) + [desc[4], sub]
        nm = 'tsubarray'
    else:
        raise ValueError(k)
    ops.append((nm, a, dict(r='type', desc=desc)))
    return slot


def _conflict(a, b):
    """can receive entries a and b (messages) match a common message?"""
    if a['c'] != b['c']:
        return False
    sa = ANY if a.get('rs') == ANY else a['s']
    sb = ANY if b.get('rs') == ANY else b['s']
    if sa != ANY and sb != ANY and sa != sb:
        return False
    ta = ANY if a.get('rtg') == ANY else a['tag']
    tb = ANY if b.get('rtg') == ANY else b['tag']
    if ta != ANY and tb != ANY and ta != tb:
        return False
    return True


def build(plan):
    np_ = plan['np']
    B = Built()
    B.np = np_
    B.plan = plan
    B.msgs = {it['id']: it for it in plan['items'] if it['k'] == 'msg'}
    B.tinfo = {}

    def tinfo(tref):
        key = tref if isinstance(tref, str) else int(tref)
        if key not in B.tinfo:
            B.tinfo[key] = R.flatten(tdesc(plan, tref))
        return B.tinfo[key]
    B.ti = tinfo

    comm = [{0: list(range(np_)), 1: [r]} for r in range(np_)]
    grp = [dict() for _ in range(np_)]
    pro = [[] for _ in range(np_)]   # prologue ops
    # ---- types (SPMD)
    tslot = {}
    nxt = [TYPE_SLOT0]

    def talloc():
        nxt[0] += 1
        return nxt[0] - 1
    tops = []
    for i, d in enumerate(plan.get('types', [])):
        tslot[i] = _type_ops(d, talloc, tops)
    if nxt[0] >= 250:
        raise ValueError('too many type slots')
    for r in range(np_):
        pro[r] += tops

    def TS(tref):
        return R.BASE_SLOT[tref] if isinstance(tref, str) else tslot[tref]
    # ---- setup steps
    for st in plan.get('setup', []):
        res = ref_setup_step(np_, comm, grp, st)
        for r in range(np_):
            if res[r]:
                pro[r].append(res[r])
    # ---- entries per rank
    ent = [[] for _ in range(np_)]
    have = set(B.msgs)
    comm_at = {}     # msg id -> communicator instance id
    B.mgroup = {}
    cs = [dict(c) for c in comm]
    gs = [dict(g) for g in grp]
    coll_ops = {}
    parts = {}
    for pos, it in enumerate(plan['items']):
        k = it['k']
        if k == 'msg':
            g1, g2 = cs[it['s']].get(it['c']), cs[it['d']].get(it['c'])
            if g1 is None or g2 is None or g1 != g2:
                raise ValueError('message %s on a communicator its ends do not share' % it['id'])
            comm_at[it['id']] = 'c%d:%s' % (it['c'], ','.join(map(str, g1)))
            B.mgroup[it['id']] = g1
            ent[it['s']].append(['S', it, pos])
            ent[it['d']].append(['R', it, pos])
        elif k == 'barrier':
            parts[pos] = [r for r in range(np_) if cs[r].get(it['c']) is not None]
            for r in parts[pos]:
                ent[r].append(['B', it, pos])
        elif k == 'coll':
            coll_ops[pos] = ref_setup_step(np_, cs, gs, it['step'])
            parts[pos] = [r for r in range(np_) if coll_ops[pos][r]]
            for r in parts[pos]:
                ent[r].append(['C', it, pos])
        elif k == 'pack':
            if not 0 <= it['rank'] < np_:
                raise ValueError('pack on missing rank')
            ent[it['rank']].append(['P', it, pos])
    B.comm_at = comm_at
    B.final_comm = cs
    for r in range(np_):
        el = ent[r]
        # Rsend handshake: post the receive before sending the 'ready' message
        i = 0
        while i + 1 < len(el):
            a, b = el[i], el[i + 1]
            if a[0] == 'S' and b[0] == 'R' and b[1].get('rdy') == a[1]['id']:
                el[i], el[i + 1] = b, a
                i += 2
            else:
                i += 1
        # remember original positions, then hoist non-blocking receives
        for i, e in enumerate(el):
            e.append(i)            # e[3] = original index
        for i in range(len(el)):
            e = el[i]
            if e[0] != 'R' or e[1].get('rm') != 'irecv' or not e[1].get('hoist') or e[1].get('rdy') is not None:
                continue
            j = i
            h = e[1]['hoist']
            while j > 0 and h > 0:
                up = el[j - 1]
                if up[0] == 'S' and not any(x[0] == 'R' and x[1].get('rdy') == up[1]['id'] for x in el):
                    pass
                elif up[0] == 'R' and not _conflict(up[1], e[1]) and up[1].get('rdy') is None:
                    pass
                else:
                    break
                el[j - 1], el[j] = el[j], el[j - 1]
                j -= 1
                h -= 1
        # fuse Sendrecv
        out = []
        i = 0
        while i < len(el):
            e = el[i]
            if (e[0] == 'S' and e[1].get('srf') is not None and i + 1 < len(el) and el[i + 1][0] == 'R' and
                    el[i + 1][1]['id'] == e[1]['srf'] and e[1]['sm'] in (0, 4) and
                    el[i + 1][1].get('rm') in ('recv', 'irecv') and el[i + 1][1].get('rdy') is None):
                out.append(['SR', e[1], e[2], e[3], el[i + 1][1]])
                i += 2
            elif (e[0] == 'R' and i + 1 < len(el) and el[i + 1][0] == 'S' and el[i + 1][1].get('srf') == e[1]['id'] and
                  el[i + 1][1]['sm'] in (0, 4) and e[1].get('rm') in ('recv', 'irecv') and e[1].get('rdy') is None and
                  not any(x[0] == 'R' and x[1].get('rdy') == el[i + 1][1]['id'] for x in el)):
                out.append(['SR', el[i + 1][1], e[2], e[3], e[1]])
                i += 2
            else:
                out.append(e)
                i += 1
        ent[r] = out
    # ---- emission
    B.ops = []
    psm = plan.get('psm') or {}
    for r in range(np_):
        body = []
        need_pools = set()
        pool_busy = [False] * NPOOLS
        cur = {SB_HEAP: 0, RB_HEAP: 0, PACKB: 0}
        pending = []
        freeq = list(range(90, -1, -1))
        gk = [0]
        gv = plan.get('gvars')
        bs_total = [0]
        layout = psm.get(str(r))

        def comm_op(name, args, meta):
            if gv:
                gk[0] += 1
                body.append(('gset', [gk[0]], dict(r='gset', k=gk[0])))
            if gv:
                meta = dict(meta, gk=gk[0])
            body.append((name, args, meta))
            if gv:
                body.append(('gchk', [], dict(r='gchk', k=gk[0])))

        def think(t):
            if t and t[1] > 0:
                body.append(('sleep' if t[0] == 0 else 'exec', [int(t[1])], dict(r='think', gk=gk[0]) if gv else dict(r='think')))

        def region(side, kind, L, it):
            """-> (b, start, L, pool index or None)"""
            if kind == 2 and layout:
                lay = layout['s' if side == 's' else 'r']
                off = it['soff' if side == 's' else 'roff']
                off = max(0, min(off, lay['size'] - L))
                return (SB_PSM if side == 's' else RB_PSM, off, L, None)
            if kind == 1 and L + 2 * GUARD <= POOLSZ:
                want = [p for p in range(NPOOLS) if not pool_busy[p]]
                if want:
                    p = want[(it['id'] + (0 if side == 's' else 5)) % len(want)]
                    pool_busy[p] = True
                    need_pools.add(p)
                    return (POOL0 + p, GUARD, L, p)
            b = SB_HEAP if side == 's' else RB_HEAP
            start = (cur[b] + 7) // 8 * 8 + GUARD + (it.get('mis', 0) if side == 's' else it.get('mir', 0))
            cur[b] = start + L + GUARD
            return (b, start, L, None)

        def complete(group):
            """emit completion ops for pending requests in `group` (list of pending dicts)"""
            if not group:
                return
            singles = [p for p in group if p['wk'] in (0, 1)]
            alls = [p for p in group if p['wk'] in (2, 4)]
            anys = [p for p in group if p['wk'] == 3]
            if len(alls) == 1:
                singles += alls
                alls = []
            if len(anys) == 1:
                singles += anys
                anys = []
            for p in singles:
                if p['wk'] == 1:
                    comm_op('test', [p['q']], dict(r='test', qs=[p['q']], who=[(p['side'], p['m'])]))
                comm_op('wait', [p['q']], dict(r='wait', qs=[p['q']], who=[(p['side'], p['m'])]))
            if alls:
                qs = [p['q'] for p in alls]
                who = [(p['side'], p['m']) for p in alls]
                if any(p['wk'] == 4 for p in alls):
                    comm_op('testall', [len(qs)] + qs, dict(r='testall', qs=qs, who=who))
                comm_op('waitall', [len(qs)] + qs, dict(r='waitall', qs=qs, who=who))
            if anys:
                qs = [p['q'] for p in anys]
                who = [(p['side'], p['m']) for p in anys]
                for _ in qs:
                    comm_op('waitany', [len(qs)] + qs, dict(r='waitany', qs=qs, who=who))
            for p in group:
                b, start, L, pool = p['reg']
                if p['side'] == 's':
                    body.append(('poison', [b, start, L], dict(r='poison')))
                else:
                    emit_dump(p['m'], p['reg'])
                if pool is not None:
                    pool_busy[pool] = False
                freeq.append(p['q'])
                pending.remove(p)

        def emit_dump(mid, reg):
            b, start, L, pool = reg
            if b == RB_PSM:
                lo, n = 0, layout['r']['size']
            else:
                lo, n = start - GUARD, L + 2 * GUARD
            body.append(('dump', [b, lo, n], dict(r='dump', m=mid, b=b, lo=lo, n=n, start=start, L=L)))

        def prep_recv(reg):
            b, start, L, pool = reg
            if b == RB_PSM:
                body.append(('canary', [b, 0, layout['r']['size']], dict(r='canary')))
            elif pool is not None:
                body.append(('canary', [b, 0, L + 2 * GUARD], dict(r='canary')))

        def post_send(it, force_nb=False):
            ti = tinfo(it['st'])
            lo, hi = R.span(ti, it['sc'])
            L = hi
            reg = region('s', it.get('sbk', 0), L, it)
            b, start, _, pool = reg
            body.append(('fill', [b, start, L, it['id']], dict(r='fill')))
            sm = it['sm']
            if sm in (3, 7) and it.get('rdy') not in have:
                sm = 0 if sm == 3 else 4
            if force_nb and sm < 4:
                sm += 4
            g = B.mgroup[it['id']]
            dst_ = g.index(it['d'])
            if sm in (2, 6):
                bs_total[0] += ti.size * it['sc'] + 512
            if sm < 4:
                comm_op('send', [sm, b, start, it['sc'], TS(it['st']), dst_, it['tag'], it['c'], -1],
                        dict(r='send', m=it['id'], q=None, reg=reg, sm=sm))
                body.append(('poison', [b, start, L], dict(r='poison')))
                if pool is not None:
                    pool_busy[pool] = False
                return None
            q = freeq.pop()
            comm_op('send', [sm, b, start, it['sc'], TS(it['st']), dst_, it['tag'], it['c'], q],
                    dict(r='send', m=it['id'], q=q, reg=reg, sm=sm))
            return dict(q=q, side='s', m=it['id'], reg=reg, wk=it.get('wks', 0))

        def recv_args(it):
            ti = tinfo(it['rt'])
            lo, hi = R.span(ti, it['rc'])
            reg = region('r', it.get('rbk', 0), hi, it)
            g = B.mgroup[it['id']]
            src = ANY if it.get('rs') == ANY else g.index(it['s'])
            tag = ANY if it.get('rtg') == ANY else it['tag']
            return reg, src, tag

        def post_recv(it):
            reg, src, tag = recv_args(it)
            b, start, L, pool = reg
            prep_recv(reg)
            rm = it.get('rm', 'recv')
            if it.get('rdy') is not None and it.get('rdy') in have and rm != 'irecv':
                rm = 'irecv'
            flags = 0
            if rm in ('probe', 'iprobe'):
                comm_op(rm, [src, tag, it['c']], dict(r='probe', m=it['id'], kind=rm))
                flags = 1
                rm = 'recv'
            if rm == 'recv':
                comm_op('recv', [0, b, start, it['rc'], TS(it['rt']), src, tag, it['c'], -1, flags],
                        dict(r='recv', m=it['id'], q=None, reg=reg, probe=bool(flags)))
                emit_dump(it['id'], reg)
                if pool is not None:
                    pool_busy[pool] = False
                return None
            q = freeq.pop()
            comm_op('recv', [1, b, start, it['rc'], TS(it['rt']), src, tag, it['c'], q, 0],
                    dict(r='recv', m=it['id'], q=q, reg=reg, probe=False))
            return dict(q=q, side='r', m=it['id'], reg=reg, wk=it.get('wkr', 0))

        for e in ent[r]:
            kind, it, pos, orig = e[0], e[1], e[2], e[3]
            if kind == 'S':
                think(it.get('ts'))
                p = post_send(it)
                if p:
                    p['due'] = orig + (it.get('sw') or 0)
                    pending.append(p)
            elif kind == 'R':
                think(it.get('tr'))
                p = post_recv(it)
                if p:
                    p['due'] = orig + (it.get('rw') or 0)
                    pending.append(p)
            elif kind == 'SR':
                ms, mr = it, e[4]
                think(ms.get('ts'))
                tis = tinfo(ms['st'])
                Ls = R.span(tis, ms['sc'])[1]
                sreg = region('s', ms.get('sbk', 0), Ls, ms)
                body.append(('fill', [sreg[0], sreg[1], Ls, ms['id']], dict(r='fill')))
                rreg, src, tag = recv_args(mr)
                prep_recv(rreg)
                gsd = B.mgroup[ms['id']]
                comm_op('sendrecv', [sreg[0], sreg[1], ms['sc'], TS(ms['st']), gsd.index(ms['d']), ms['tag'],
                                     rreg[0], rreg[1], mr['rc'], TS(mr['rt']), src, tag, ms['c']],
                        dict(r='sendrecv', ms=ms['id'], mr=mr['id'], sreg=sreg, rreg=rreg))
                body.append(('poison', [sreg[0], sreg[1], Ls], dict(r='poison')))
                emit_dump(mr['id'], rreg)
                for rg_ in (sreg, rreg):
                    if rg_[3] is not None:
                        pool_busy[rg_[3]] = False
            elif kind == 'B':
                think(it.get('t', {}).get(str(r)))
                comm_op('barrier', [it['c']], dict(r='barrier', pos=pos, parts=parts[pos]))
            elif kind == 'C':
                res = coll_ops[pos][r]
                if res:
                    comm_op(res[0], res[1], dict(res[2], pos=pos, parts=parts[pos]))
            elif kind == 'P':
                ti = tinfo(it['t'])
                L = R.span(ti, it['count'])[1]
                nbytes = ti.size * it['count']
                sreg = region('s', 0, L, it)
                body.append(('fill', [sreg[0], sreg[1], L, it['id']], dict(r='fill')))
                pstart = cur[PACKB] + GUARD
                psz = nbytes + it.get('slack', 0)
                cur[PACKB] = pstart + psz + GUARD
                body.append(('packsize', [it['count'], TS(it['t']), 0], dict(r='packsize', it=it['id'], nbytes=nbytes)))
                body.append(('pack', [sreg[0], sreg[1], it['count'], TS(it['t']), PACKB, pstart, psz, 0, 0],
                             dict(r='pack', it=it['id'], nbytes=nbytes)))
                body.append(('dump', [PACKB, pstart - GUARD, psz + 2 * GUARD],
                             dict(r='pdump', it=it['id'], lo=pstart - GUARD, n=psz + 2 * GUARD, start=pstart, psz=psz)))
                rreg = region('r', 0, L, it)
                body.append(('unpack', [PACKB, pstart, psz, 0, rreg[0], rreg[1], it['count'], TS(it['t']), 0],
                             dict(r='unpack', it=it['id'], nbytes=nbytes)))
                body.append(('dump', [rreg[0], rreg[1] - GUARD, L + 2 * GUARD],
                             dict(r='udump', it=it['id'], lo=rreg[1] - GUARD, n=L + 2 * GUARD, start=rreg[1], L=L)))
            due = [p for p in pending if p['due'] <= orig]
            complete(due)
        complete(list(pending))
        # ---- prologue
        head = list(pro[r])
        head.append(('alloc', [SB_HEAP, 0, cur[SB_HEAP] + GUARD], dict(r='alloc')))
        head.append(('alloc', [RB_HEAP, 0, cur[RB_HEAP] + GUARD], dict(r='alloc')))
        if cur[PACKB]:
            head.append(('alloc', [PACKB, 0, cur[PACKB] + GUARD], dict(r='alloc')))
        for p in sorted(need_pools):
            head.append(('alloc', [POOL0 + p, 1, POOLSZ], dict(r='alloc')))
        if layout:
            for side, b in (('s', SB_PSM), ('r', RB_PSM)):
                lay = layout[side]
                sh = [x for blk in lay['shared'] for x in blk]
                head.append(('alloc', [b, 2, lay['size'], len(lay['shared'])] + sh, dict(r='alloc')))
        if bs_total[0]:
            head.append(('battach', [bs_total[0] + 4096], dict(r='rc')))
            body.append(('bdetach', [], dict(r='rc')))
        if gv:
            head.append(('gchk', [], dict(r='gchk', k=0)))
        B.ops.append(head + body)
    return B


# ---------------------------------------------------------------------------------------------------------
# history reconstruction and oracles
# ---------------------------------------------------------------------------------------------------------
def root_kind(plan, tref):
    return 'b' if isinstance(tref, str) else plan['types'][tref][0]


def is_plain(plan, tref):
    return isinstance(tref, str)


def _shared_mask(lay, lo, n):
    """bytearray n: 1 where byte lo+i of a partial-shared buffer is shared"""
    m = bytearray(n)
    for a, b in lay['shared']:
        a2, b2 = max(a, lo), min(b, lo + n)
        if a2 < b2:
            m[a2 - lo:b2 - lo] = b'\1' * (b2 - a2)
    return m


def globals_expected(rank, k):
    if k == 0:
        arr = [0] * 64
        tab = [1, 2, 3] + [0] * 29
        gi, sll, gd, fs = 12345, -7, 0.0, 99
    else:
        arr = [(rank * 37 + k * 11 + i) & 255 for i in range(64)]
        tab = [rank * 7919 + k * 13 + i for i in range(32)]
        gi, sll, gd, fs = rank * 100003 + k * 17 + 1, rank * 1000000007 + k * 31 + 2, rank * 4096 + k + 0.5, rank * 1009 + k
    h = 2166136261
    for x in arr:
        h = ((h ^ x) * 16777619) & 0xFFFFFFFF
    h2 = 2166136261
    for x in tab:
        h2 = ((h2 ^ (x & 0xFFFFFFFF)) * 16777619) & 0xFFFFFFFF
    return [str(gi), str(sll), gd, str(h), str(h2), str(fs), str(arr[0]), str(tab[0])]


def _globals_match(fields, exp):
    if len(fields) < 8:
        return False
    for i, e in enumerate(exp):
        if i == 2:
            try:
                if float.fromhex(fields[i]) != e:
                    return False
            except ValueError:
                return False
        elif fields[i] != e:
            return False
    return True


class Analysis:
    pass


def analyze(plan, res):
    """-> Analysis with .viol [(class,msg)], .stats {}, .sig str, .complete bool"""
    A = Analysis()
    A.viol = []
    A.stats = {}
    B = res.get('built') or build(plan)
    np_ = plan['np']
    per, order = parse_log(res['log'], np_)
    A.per, A.order = per, order
    ex = classify_exit(res, np_, per)
    A.complete = ex is None
    if ex:
        A.viol.append(ex)
    cfg = plan['cfg']
    athr = int(cfg.get('smpi/async-small-thresh', 0))
    dthr = int(cfg.get('smpi/send-is-detached-thresh', 65536))
    psm = plan.get('psm') or {}
    V = A.viol
    st = A.stats
    for k in ('probe_recv_posted_first', 'probe_send_first_eager', 'probe_rendezvous', 'probe_detached',
              'probe_wildcard_choice>1', 'probe_truncate', 'probe_cross_private_block', 'msgs', 'recvs_checked',
              'types_checked', 'comm_steps_checked', 'gchk_checked'):
        st[k] = 0

    def add(cls, msg):
        V.append((cls, msg))

    def t0_of(rank, idx):
        j = idx - 1
        while j >= -1:
            L = per[rank].get(j)
            if L:
                return L.t
            j -= 1
        return 0.0

    sends = {}
    recvs = {}
    badtypes = set()
    allbad = []
    A.badtypes = badtypes
    dumps = {}
    probes = {}
    sigtok = []
    last_k = [0] * np_
    for rank in range(np_):
        ops = B.ops[rank]
        active = {}     # q -> (side, mid)
        badobj = set()   # ('g'|'c', slot) whose value in SMPI already differs from MPI: consumers are not blamed
        allbad.append(badobj)
        tainted = set()  # requests that went through a Testall that returned flag=0
        for idx, (name, args, meta) in enumerate(ops):
            L = per[rank].get(idx)
            if L is None:
                # the rank never returned from this call: what it posted there still exists
                role = meta.get('r')
                t0 = t0_of(rank, idx)
                if role in ('send', 'sendrecv'):
                    it = B.msgs[meta['m'] if role == 'send' else meta['ms']]
                    sends[it['id']] = dict(id=it['id'], src=it['s'], dst=it['d'], comm=B.comm_at[it['id']], tag=it['tag'],
                                           seq=idx, t0=t0, t1=1e300, rc='ok', sm=meta.get('sm', 0), gpos=1 << 60,
                                           bytes=B.ti(it['st']).size * it['sc'])
                if role in ('recv', 'sendrecv') and not meta.get('probe'):
                    it = B.msgs[meta['m'] if role == 'recv' else meta['mr']]
                    g = B.mgroup[it['id']]
                    recvs[it['id']] = dict(rid=it['id'], rank=rank, comm=B.comm_at[it['id']], group=g,
                                           src=(ANY if it.get('rs') == ANY else it['s']),
                                           tag=(ANY if it.get('rtg') == ANY else it['tag']), seq=idx, t0=t0, t1=None,
                                           status=None, rc=None, got=None, meta=meta, it=it, wild=(it.get('rs') == ANY),
                                           probe=False, gpos=1 << 60)
                A.__dict__.setdefault('blocked', {})[rank] = (idx, name, role)
                break
            if L.name != name:
                add('log-desync', 'rank %d op %d: plan has %s, log has %s' % (rank, idx, name, L.name))
                break
            f = L.f
            role = meta.get('r')
            if 'G' in f:
                gi = len(f) - 1 - f[::-1].index('G')
                if 'gk' not in meta:
                    f = f[:gi]
            if 'G' in f and 'gk' in meta:
                st['gchk_checked'] += 1
                if not _globals_match(f[gi + 1:], globals_expected(rank, meta['gk'])):
                    add('global-leak', 'rank %d op %d (%s): globals read immediately after the call returned are %s, last written '
                        'k=%d expects %s' % (rank, idx, name, f[gi + 1:gi + 9], meta['gk'], globals_expected(rank, meta['gk'])))
                f = f[:gi]
            if role == 'send':
                it = B.msgs[meta['m']]
                sends[it['id']] = dict(id=it['id'], src=it['s'], dst=it['d'], comm=B.comm_at[it['id']], tag=it['tag'],
                                       seq=idx, t0=t0_of(rank, idx), t1=L.t, rc=f[0], sm=meta['sm'], gpos=L.gpos,
                                       bytes=B.ti(it['st']).size * it['sc'])
                if f[0] != 'ok':
                    add('rc', 'rank %d %s of message %s returned %s' % (rank, SEND_NAMES[meta['sm']], it['id'], f[0]))
                if meta['q'] is not None:
                    active[meta['q']] = ('s', it['id'])
            elif role == 'recv':
                it = B.msgs[meta['m']]
                g = B.mgroup[it['id']]
                s_spec = int(f[0])
                rec = dict(rid=it['id'], rank=rank, comm=B.comm_at[it['id']], group=g,
                           src=(ANY if s_spec == ANY else (g[s_spec] if 0 <= s_spec < len(g) else -99)), tag=int(f[1]),
                           seq=idx, t0=t0_of(rank, idx), t1=None, status=None, rc=None, got=None, meta=meta, it=it,
                           wild=(it.get('rs') == ANY), probe=meta['probe'], gpos=L.gpos)
                recvs[it['id']] = rec
                if meta['q'] is None:
                    rec['rc'] = f[2]
                    rec['status'], _ = parse_status(f, 3)
                    rec['t1'] = L.t
                else:
                    if f[2] != 'ok':
                        add('rc', 'rank %d Irecv for slot %s returned %s' % (rank, it['id'], f[2]))
                    active[meta['q']] = ('r', it['id'])
            elif role == 'sendrecv':
                ms, mr = B.msgs[meta['ms']], B.msgs[meta['mr']]
                t0 = t0_of(rank, idx)
                sends[ms['id']] = dict(id=ms['id'], src=ms['s'], dst=ms['d'], comm=B.comm_at[ms['id']], tag=ms['tag'],
                                       seq=idx, t0=t0, t1=L.t, rc=f[0], sm=0, gpos=L.gpos,
                                       bytes=B.ti(ms['st']).size * ms['sc'])
                g = B.mgroup[mr['id']]
                rec = dict(rid=mr['id'], rank=rank, comm=B.comm_at[mr['id']], group=g,
                           src=(ANY if mr.get('rs') == ANY else mr['s']), tag=(ANY if mr.get('rtg') == ANY else mr['tag']),
                           seq=idx, t0=t0, t1=L.t, rc=f[0], got=None, meta=dict(reg=meta['rreg']), it=mr,
                           wild=(mr.get('rs') == ANY), probe=False, gpos=L.gpos)
                rec['status'], _ = parse_status(f, 1)
                recvs[mr['id']] = rec
            elif role == 'probe':
                if f[1] == '1':
                    stt, _ = parse_status(f, 2)
                    probes[meta['m']] = dict(kind=meta['kind'], status=stt, t=L.t, rc=f[0], tagspec=args[1])
            elif role in ('wait', 'test', 'waitall', 'testall', 'waitany'):
                qs, who = meta['qs'], meta['who']
                done = []   # (i, status)
                if role == 'wait':
                    if f[1] == '1':
                        done.append((0, parse_status(f, 2)[0], f[0]))
                elif role == 'test':
                    if f[1] == '1' and f[2] == '1':
                        done.append((0, parse_status(f, 3)[0], f[0]))
                elif role == 'waitall':
                    p = 1
                    for i in range(len(qs)):
                        stt, p = parse_status(f, p)
                        if qs[i] in active:
                            done.append((i, stt, f[0]))
                elif role == 'testall':
                    if f[1] != '1':
                        for q_ in qs:
                            if q_ in active:
                                tainted.add(q_)
                    if f[1] == '1':
                        p = 2
                        for i in range(len(qs)):
                            stt, p = parse_status(f, p)
                            if qs[i] in active:
                                done.append((i, stt, f[0]))
                elif role == 'waitany':
                    ix = int(f[1])
                    if 0 <= ix < len(qs):
                        done.append((ix, parse_status(f, 2)[0], f[0]))
                for i, stt, rc in done:
                    side, mid = who[i]
                    if rc == 'instatus':        # MPI_ERR_IN_STATUS: the per-request code is in the status
                        rc = stt['err']
                    if active.pop(qs[i], None) is None:
                        add('req-twice', 'rank %d: request of %s %s reported complete twice' % (rank, side, mid))
                        continue
                    if side == 'r':
                        rec = recvs[mid]
                        rec['status'], rec['rc'], rec['t1'] = stt, rc, L.t
                        rec['after_testall'] = qs[i] in tainted
                    elif rc != 'ok':
                        add('rc', 'rank %d: completion of send %s returned %s' % (rank, mid, rc))
                    tainted.discard(qs[i])
            elif role == 'dump':
                dumps[meta['m']] = (meta, parse_dump(f))
            elif role == 'gchk':
                st['gchk_checked'] += 1
                if not _globals_match(f, globals_expected(rank, meta['k'])):
                    add('global-leak', 'rank %d op %d: globals read back %s, last written k=%d expects %s' %
                        (rank, idx, f[:8], meta['k'], globals_expected(rank, meta['k'])))
                last_k[rank] = meta['k']
            elif role == 'type':
                _check_type(plan, meta['desc'], f, add, st, rank, badtypes)
            elif role in ('comm', 'group', 'gtrans', 'cmp', 'ginfo'):
                if any(x in badobj for x in meta.get('ins', ())):
                    st['comm_steps_skipped_bad_input'] = st.get('comm_steps_skipped_bad_input', 0) + 1
                    if meta.get('out'):
                        badobj.add(meta['out'])
                else:
                    nv = len(V)
                    _check_comm(role, meta, f, add, st, rank, name)
                    if meta.get('out'):
                        if len(V) > nv:
                            badobj.add(meta['out'])
                        else:
                            badobj.discard(meta['out'])
            elif role in ('packsize', 'pack', 'unpack', 'pdump', 'udump'):
                A.__dict__.setdefault('packlines', {}).setdefault((rank, meta['it']), {})[role] = (meta, f)
            elif role == 'rc' or role == 'barrier':
                if f and f[0] != 'ok':
                    add('rc', 'rank %d %s returned %s' % (rank, name, f[0]))
        L0 = per[rank].get(-1)
        if L0 and plan.get('gvars') and not _globals_match(L0.f[1:], globals_expected(rank, 0)):
            add('global-leak', 'rank %d starts with globals %s instead of the initial values' % (rank, L0.f[1:9]))
    # ---- pack/unpack round trips
    for (rank, itid), d in sorted(getattr(A, 'packlines', {}).items()):
        _check_pack(plan, B, rank, itid, d, add, st, badtypes)
    # ---- attribute received buffers to messages
    st['msgs'] = len(sends)
    by_dst = {}
    for m in sends.values():
        by_dst.setdefault(m['dst'], []).append(m)
    for lst in by_dst.values():
        lst.sort(key=lambda m: (m['src'], m['seq']))
    consumed = set()
    done_recvs = [r for r in recvs.values() if r['status'] is not None and r['rid'] in dumps]
    done_recvs.sort(key=lambda r: (r['rank'], r['seq']))
    for r in done_recvs:
        st['recvs_checked'] += 1
        _check_recv(plan, B, r, dumps[r['rid']], by_dst.get(r['rank'], []), consumed, add, st, psm, probes, athr, dthr, sends, badtypes)
    # ---- matching legality over the whole history
    hs = [dict(id=m['id'], src=m['src'], dst=m['dst'], comm=m['comm'], tag=m['tag'], seq=m['seq']) for m in sends.values()]
    hr = [dict(rid=r['rid'], rank=r['rank'], comm=r['comm'], src=r['src'], tag=r['tag'], seq=r['seq'], got=r['got'])
          for r in recvs.values()]
    for c, m in R.check_matching(hs, hr, complete=A.complete):
        if c == 'match-comm':
            c = 'cross-comm'
        add(c, m)
    if ex and ex[0] in ('deadlock', 'hang'):
        got_ids = {r_['got'] for r_ in recvs.values() if r_['got'] is not None}
        for r_ in sorted(recvs.values(), key=lambda x: (x['rank'], x['seq'])):
            if r_['got'] is not None or r_['status'] is not None:
                continue
            hit = [m for m in sends.values() if m['id'] not in got_ids and m['dst'] == r_['rank'] and m['comm'] == r_['comm']
                   and R.src_ok(r_['src'], m['src']) and R.tag_ok(r_['tag'], m['tag'])]
            if hit:
                m = min(hit, key=lambda x: x['seq'])
                add('stuck-match', 'the run ends in a %s although receive %s of rank %d (source spec %d, tag spec %d, %d bytes) is '
                    'posted and the matching message %s (rank %d, tag %d, %d bytes, %s) has been sent on the same communicator: '
                    'they are never matched' % (ex[0], r_['rid'], r_['rank'], r_['src'], r_['tag'],
                                                B.ti(r_['it']['rt']).size * r_['it']['rc'], m['id'], m['src'], m['tag'], m['bytes'],
                                                SEND_NAMES[m['sm']]))
                break
        for r_ in recvs.values():
            it = r_['it']
            if it.get('trunc') and r_['got'] is None and it['id'] in sends:
                V[0] = ('trunc-' + ex[0], 'oversized message %s (%d bytes into a %d-byte receive) is never delivered nor reported: %s' %
                        (it['id'], sends[it['id']]['bytes'], B.ti(it['rt']).size * it['rc'], ex[1]))
                break
    bad_slots = {o[1] for b_ in allbad for o in b_ if o[0] == 'c'}
    if bad_slots and any(it['k'] == 'msg' and it['c'] in bad_slots for it in plan['items']):
        # traffic ran on a communicator whose group already differs from MPI's: ranks of the plan address other
        # processes there, so nothing about that traffic (nor a resulting stall) can be asserted
        keep = ('split-', 'dup-', 'create-', 'group-', 'translate', 'compare', 'layout-', 'global-leak')
        dropped = [c for c, _ in V if not c.startswith(keep)]
        V[:] = [(c, m) for c, m in V if c.startswith(keep)]
        st['runs_tainted_by_bad_comm'] = 1
        st['classes_dropped_bad_comm'] = len(dropped)
    # ---- signature: global order of communication events
    for L in order:
        if L.idx < 0:
            continue
        ops = B.ops[L.rank]
        if L.idx >= len(ops):
            continue
        meta = ops[L.idx][2]
        role = meta.get('r')
        if role == 'send':
            sigtok.append('%d>%d' % (L.rank, B.msgs[meta['m']]['d']))
        elif role == 'recv':
            rec = recvs.get(meta['m'])
            sigtok.append('%d<%s' % (L.rank, rec['got'] if rec and meta['q'] is None else 'p'))
        elif role in ('wait', 'waitall', 'waitany', 'test', 'testall', 'sendrecv', 'probe', 'barrier', 'comm'):
            sigtok.append('%d%s%s' % (L.rank, role[0], L.f[1] if role in ('waitany', 'test', 'testall', 'probe') and len(L.f) > 1 else ''))
    A.sig = dst.sha(' '.join(sigtok), plan['np'])
    fin = [L.t for L in order if L.name == 'fini']
    st['sim_seconds'] = max(fin) if fin else (order[-1].t if order else 0.0)
    A.sends, A.recvs = sends, recvs
    return A


def _children(desc):
    if desc[0] == 'b':
        return []
    if desc[0] == 'struct':
        return list(desc[3])
    if desc[0] == 'resized':
        return [desc[1]]
    return [desc[-1]]


def _check_type(plan, desc, f, add, st, rank, bad):
    if rank != 0:
        return      # SPMD: identical lines on every rank; one check is enough
    import json
    key = json.dumps(desc)
    if any(json.dumps(c) in bad for c in _children(desc)):
        bad.add(key)        # built on a type whose layout is already wrong: blame the innermost node only
        st['types_skipped_bad_child'] = st.get('types_skipped_bad_child', 0) + 1
        return
    st['types_checked'] += 1
    kind = desc[0]
    add0 = add

    def add(c, m):
        bad.add(key)
        add0(c, m)
    if f[0] != 'ok' or f[1] == 'null':
        add('layout-rc:' + kind, 'constructor of %s returned %s' % (desc, f[:2]))
        return
    ti = R.flatten(desc)
    size, lb, ext, tlb, text, dlb, dub = [int(x) for x in f[1:8]]
    if size != ti.size:
        add('layout-size:' + kind, 'Type_size=%d, MPI says %d for %s' % (size, ti.size, desc))
    if ti.size == 0 and ti.lbm is None:
        return      # bounds of an empty typemap: nothing to assert
    eps = R.any_epsilon(desc)
    if lb != ti.lb or dlb != ti.lb:
        add('layout-lb:' + kind, 'lb=%d (Type_lb %d), MPI says %d for %s' % (lb, dlb, ti.lb, desc))
    if not eps:
        if ext != ti.extent:
            add('layout-extent:' + kind, 'extent=%d, MPI says %d (lb %d ub %d) for %s' % (ext, ti.extent, ti.lb, ti.ub, desc))
        elif dub != ti.ub:
            add('layout-ub:' + kind, 'Type_ub=%d, MPI says %d for %s' % (dub, ti.ub, desc))
    if (tlb, text) != (ti.true_lb, ti.true_ub - ti.true_lb):
        st['info_true_extent_differs'] = st.get('info_true_extent_differs', 0) + 1


def _parse_group(f, i):
    """f[i] = '[n' ... 'x]' -> (list, next index)"""
    assert f[i].startswith('['), f[i:]
    if f[i].endswith(']'):
        return [], i + 1
    out = []
    j = i + 1
    while True:
        tok = f[j]
        if tok.endswith(']'):
            out.append(int(tok[:-1]))
            return out, j + 1
        out.append(int(tok))
        j += 1


def _check_comm(role, meta, f, add, st, rank, name):
    st['comm_steps_checked'] += 1
    if f[0] != 'ok' and role != 'ginfo':
        add('rc', 'rank %d %s returned %s' % (rank, name, f[0]))
        return
    if role == 'comm':
        exp = meta['exp']
        cls = {'csplit': 'split', 'cdup': 'dup', 'ccreate': 'create'}[name]
        if f[1] == 'null':
            if exp is not None:
                add(cls + '-members', 'rank %d: %s gave MPI_COMM_NULL, MPI says group %s' % (rank, name, exp))
            return
        size, rk = int(f[1]), int(f[2])
        got, _ = _parse_group(f, 3)
        if exp is None:
            add(cls + '-members', 'rank %d: %s gave a communicator %s, MPI says MPI_COMM_NULL' % (rank, name, got))
        elif sorted(got) != sorted(exp):
            add(cls + '-members', 'rank %d: %s members (world ranks) %s, MPI says %s' % (rank, name, got, exp))
        elif got != exp or size != len(exp) or rk != exp.index(rank):
            add(cls + '-order', 'rank %d: %s gave size %d rank %d order %s, MPI says rank %d in %s' %
                (rank, name, size, rk, got, exp.index(rank), exp))
    elif role == 'group':
        got, _ = _parse_group(f, 1)
        if got != meta['exp']:
            c = 'group-members:' if sorted(got) != sorted(meta['exp']) else 'group-order:'
            add(c + name, 'rank %d: %s gave %s, MPI says %s' % (rank, name, got, meta['exp']))
    elif role == 'gtrans':
        got = [int(x) for x in f[1:1 + len(meta['exp'])]]
        if got != meta['exp']:
            add('translate', 'rank %d: translate_ranks gave %s, MPI says %s' % (rank, got, meta['exp']))
    elif role == 'cmp':
        if f[1] != meta['exp']:
            add('compare:' + name, 'rank %d: %s gave %s, MPI says %s' % (rank, name, f[1], meta['exp']))
    elif role == 'ginfo':
        size, rk = int(f[0]), int(f[1])
        got, _ = _parse_group(f, 2)
        if got != meta['exp'] or size != len(meta['exp']) or rk != meta['rank']:
            add('group-info', 'rank %d: group size %d rank %d members %s, MPI says rank %d in %s' %
                (rank, size, rk, got, meta['rank'], meta['exp']))


def _uses_bad(plan, trefs, bad):
    import json
    return any(not isinstance(t, str) and json.dumps(plan['types'][t]) in bad for t in trefs)


def _rebuild(rank, b, lo, n, runs):
    buf = bytearray(pat_canary(rank, b, lo, n))
    for pos, data in runs:
        buf[pos - lo:pos - lo + len(data)] = data
    return buf


def _expected(plan, B, rank, m, rmeta, rit, psm):
    """expected content of the dumped area if message m was delivered into the receive described by rit;
    returns (bytes, care mask or None, selected positions count, nbytes delivered)"""
    b, lo, n, start = rmeta['b'], rmeta['lo'], rmeta['n'], rmeta['start']
    exp = bytearray(pat_canary(rank, b, lo, n))
    sti = B.ti(m['st'])
    rti = B.ti(rit['rt'])
    ssegs = R.seg_list(sti, m['sc'])
    rsegs = R.seg_list(rti, rit['rc'])
    care = None
    slay = (psm.get(str(m['s'])) or {}).get('s') if m.get('sbk') == 2 else None
    rlay = (psm.get(str(rank)) or {}).get('r') if b == RB_PSM else None
    if rlay:
        care = bytearray(b'\1' * n)
        sm_ = _shared_mask(rlay, lo, n)
        for i in range(n):
            if sm_[i]:
                care[i] = 0
    smask = None
    if slay:
        soff = max(0, min(m['soff'], slay['size'] - R.span(sti, m['sc'])[1]))
        Ls = R.span(sti, m['sc'])[1]
        smask = _shared_mask(slay, soff, Ls)
        if care is None:
            care = bytearray(b'\1' * n)
    if sti.size * m['sc'] > rti.size * rit['rc']:
        # truncation: MPI leaves the content of the receive buffer undefined; only bytes outside it are asserted
        if care is None:
            care = bytearray(b'\1' * n)
        for ra, rl in rsegs:
            p0 = start - lo + ra
            care[p0:p0 + rl] = bytes(rl)
    # walk both segment lists in lock step
    si = ri = 0
    so = ro = 0
    total = 0
    while si < len(ssegs) and ri < len(rsegs):
        sa, sl = ssegs[si]
        ra, rl = rsegs[ri]
        k = min(sl - so, rl - ro)
        src = pat_msg(m['id'], k, sa + so)
        p = start - lo + ra + ro
        exp[p:p + k] = src
        if smask is not None:
            seg = smask[sa + so:sa + so + k]
            if any(seg):
                for i in range(k):
                    if seg[i]:
                        care[p + i] = 0
        total += k
        so += k
        ro += k
        if so == sl:
            si += 1
            so = 0
        if ro == rl:
            ri += 1
            ro = 0
    return exp, care, total


def _differs(a, b, care):
    if care is None:
        return a != b
    if a == b:
        return False
    for i in range(len(a)):
        if care[i] and a[i] != b[i]:
            return True
    return False


def _first_diff(a, b, care):
    for i in range(len(a)):
        if a[i] != b[i] and (care is None or care[i]):
            return i
    return -1


def _check_recv(plan, B, r, dump, cands_all, consumed, add, st, psm, probes, athr, dthr, sends, badtypes=()):
    rmeta, runs = dump
    rank = r['rank']
    rit = r['it']
    stt = r['status']
    g = r['group']
    actual = _rebuild(rank, rmeta['b'], rmeta['lo'], rmeta['n'], runs)
    derived = not (is_plain(plan, rit['rt']))
    cands = [m for m in cands_all if m['id'] not in consumed]
    ssrc = g[stt['src']] if 0 <= stt['src'] < len(g) else None
    # 1. content match
    matches = []
    cache = {}
    for m in cands:
        mi = B.msgs[m['id']]
        exp, care, tot = _expected(plan, B, rank, mi, rmeta, rit, psm)
        cache[m['id']] = (exp, care, tot)
        if not _differs(actual, exp, care):
            matches.append(m)

    cap0 = B.ti(rit['rt']).size * rit['rc']
    said_trunc = r['rc'] == 'trunc' or stt['err'] == 'trunc'

    def rank_of(m):
        size_ok = (m['bytes'] > cap0) if said_trunc else (m['bytes'] == stt['bytes'])
        return (0 if (m['src'] == ssrc and m['tag'] == stt['tag'] and m['comm'] == r['comm']) else
                1 if (m['src'] == ssrc and m['comm'] == r['comm']) else 2 if m['comm'] == r['comm'] else 3,
                0 if (m['comm'] == r['comm'] and R.src_ok(r['src'], m['src']) and R.tag_ok(r['tag'], m['tag'])) else 1,
                1 if m['bytes'] > cap0 else 0,      # a truncated delivery explains anything: least preferred
                0 if size_ok else 1, m['seq'])
    psmk = rmeta['b'] == RB_PSM
    statusfirst = []
    if psm:
        # partially shared buffers: bytes of shared regions carry no information, so the status decides which message
        # this is and the content check is only about private bytes
        # (a status that reports truncation can only belong to a message larger than the receive, any other status only
        # to a message of exactly the reported size: two messages of one (source, tag) are told apart that way when SMPI
        # matches them out of order - async-small-thresh > 0, finding mailbox_split_order of C28 - instead of blaming the copy)
        statusfirst = [m for m in cands if m['comm'] == r['comm'] and m['src'] == ssrc and m['tag'] == stt['tag'] and
                       ((m['bytes'] > cap0) if said_trunc else (m['bytes'] == stt['bytes']))]
    if statusfirst and not any(m['id'] == min(statusfirst, key=lambda x: x['seq'])['id'] for m in matches):
        matches = []
        cands = statusfirst
    elif statusfirst:
        matches = [min(statusfirst, key=lambda x: x['seq'])]
    if matches:
        m = min(matches, key=rank_of)
    else:
        # nothing explains the buffer: pick the status-consistent earliest candidate to report against
        pool = [m for m in cands if m['comm'] == r['comm'] and R.src_ok(r['src'], m['src']) and R.tag_ok(r['tag'], m['tag'])]
        pool = [m for m in pool if m['src'] == ssrc and m['tag'] == stt['tag']] or pool
        if not pool:
            add('bytes', 'recv slot %s on rank %d: buffer matches no pending message and no candidate exists (status %s)' %
                (r['rid'], rank, stt))
            return
        m = min(pool, key=lambda x: x['seq'])
        mi = B.msgs[m['id']]
        exp, care, tot = cache[m['id']]
        i = _first_diff(actual, exp, care)
        pos = rmeta['lo'] + i
        rsegs = R.seg_list(B.ti(rit['rt']), rit['rc'])
        inside = any(rmeta['start'] + a <= pos < rmeta['start'] + a + l for a, l in rsegs)
        sderived = not is_plain(plan, mi['st'])
        poison = False
        if inside and not sderived and not derived:
            k = pos - rmeta['start']
            poison = k < len(pat_poison(k + 1)) and actual[i] == pat_poison(k + 1)[k]
        if psmk or mi.get('sbk') == 2:
            cls = 'psm-copy' if inside else 'psm-canary'
        elif (derived or sderived) and _uses_bad(plan, (mi['st'], rit['rt']), badtypes):
            cls = 'xfer-badlayout'
        elif derived or sderived:
            if inside:
                cls = ('xfer-sr' if derived and sderived else
                       'xfer-s:' + root_kind(plan, mi['st']) if sderived else 'xfer-r:' + root_kind(plan, rit['rt']))
            else:
                cls = 'xfer-canary'
        else:
            cls = ('late-copy' if poison else 'bytes') if inside else 'canary'
        add(cls, 'recv slot %s on rank %d (status src %s tag %d bytes %d) vs message %s (%d bytes from rank %d): buffer byte at '
            'offset %d is 0x%02x, expected 0x%02x (%s the receive layout)%s' %
            (r['rid'], rank, stt['src'], stt['tag'], stt['bytes'], m['id'], m['bytes'], m['src'], pos - rmeta['start'],
             actual[i], exp[i], 'inside' if inside else 'outside', ' = sender\'s overwrite pattern' if poison else ''))
    r['got'] = m['id']
    pr = probes.get(r['rid'])
    if pr and r['probe'] and m['comm'] == r['comm']:
        for e in [x for x in cands_all if x['id'] not in consumed]:
            if (e['src'] == m['src'] and e['comm'] == m['comm'] and e['seq'] < m['seq'] and R.tag_ok(pr['tagspec'], e['tag'])):
                add('probe-order', 'rank %d: %s(tag spec %d) announced message %s (tag %d, %d-th call of rank %d) although the earlier '
                    'message %s (tag %d, %d-th call) from the same rank on the same communicator also matched and was still unreceived' %
                    (rank, pr['kind'], pr['tagspec'], m['id'], m['tag'], m['seq'], m['src'], e['id'], e['tag'], e['seq']))
                break
    consumed.add(m['id'])
    mi = B.msgs[m['id']]
    cap = B.ti(rit['rt']).size * rit['rc']
    trunc = m['bytes'] > cap
    # 2. status
    lost = r.get('after_testall') and stt['src'] == -1 and stt['tag'] == -1
    if lost:
        add('status-testall', 'recv slot %s on rank %d got message %s (world rank %d, tag %d, %d bytes) but its status is empty '
            '(MPI_SOURCE=ANY_SOURCE, MPI_TAG=ANY_TAG, count 0): the request was silently completed by an earlier '
            'MPI_Testall that returned flag=0' % (r['rid'], rank, m['id'], m['src'], m['tag'], m['bytes']))
    elif m['comm'] == r['comm']:
        if ssrc != m['src']:
            add('status-source', 'recv slot %s on rank %d got message %s from world rank %d but MPI_SOURCE=%d (world %s)' %
                (r['rid'], rank, m['id'], m['src'], stt['src'], ssrc))
        if stt['tag'] != m['tag']:
            add('status-tag', 'recv slot %s on rank %d got message %s with tag %d but MPI_TAG=%d' %
                (r['rid'], rank, m['id'], m['tag'], stt['tag']))
    reported = r['rc'] == 'trunc' or stt['err'] == 'trunc'
    if trunc:
        st['probe_truncate'] += 1
        if not reported:
            add('trunc-missing', 'recv slot %s on rank %d: %d-byte message %s into a %d-byte receive: rc=%s status.MPI_ERROR=%s' %
                (r['rid'], rank, m['bytes'], m['id'], cap, r['rc'], stt['err']))
    else:
        if reported:
            add('trunc-spurious', 'recv slot %s on rank %d: %d-byte message into %d-byte receive reported truncated' %
                (r['rid'], rank, m['bytes'], cap))
        elif r['rc'] not in ('ok',):
            add('rc', 'recv slot %s on rank %d returned %s (status error %s)' % (r['rid'], rank, r['rc'], stt['err']))
        if lost:
            pass
        elif stt['bytes'] != m['bytes']:
            add('count', 'recv slot %s on rank %d: Get_count(MPI_BYTE)=%d, message %s has %d bytes' %
                (r['rid'], rank, stt['bytes'], m['id'], m['bytes']))
        sz = B.ti(rit['rt']).size
        if sz > 0 and stt['cnt'] != '-' and not lost:
            e = str(m['bytes'] // sz) if m['bytes'] % sz == 0 else 'u'
            if stt['cnt'] != e:
                add('count-type', 'recv slot %s on rank %d: Get_count(recv type)=%s, expected %s (%d bytes / %d)' %
                    (r['rid'], rank, stt['cnt'], e, m['bytes'], sz))
    # 3. probe consistency
    pr = probes.get(r['rid'])
    if pr and r['probe']:
        ps = pr['status']
        psrc = g[ps['src']] if 0 <= ps['src'] < len(g) else None
        if psrc != m['src'] or ps['tag'] != m['tag'] or ps['bytes'] != m['bytes']:
            add('probe-mismatch', 'rank %d: %s reported (src %s, tag %d, %d bytes) but the following receive got message %s '
                '(src %d, tag %d, %d bytes)' % (rank, pr['kind'], psrc, ps['tag'], ps['bytes'], m['id'], m['src'], m['tag'], m['bytes']))
    # 4. reach statistics
    if r['t0'] < m['t0']:
        st['probe_recv_posted_first'] += 1
    ssend = m['sm'] in (1, 5)
    if m['t0'] < r['t0'] and not ssend and m['bytes'] < athr:
        st['probe_send_first_eager'] += 1
    if ssend or (m['bytes'] >= dthr and m['sm'] not in (2, 6)):
        st['probe_rendezvous'] += 1
    elif m['t1'] < r['t0'] and m['sm'] < 4:
        st['probe_detached'] += 1
    if r['wild']:
        others = {x['src'] for x in cands if x['comm'] == r['comm'] and R.tag_ok(r['tag'], x['tag']) and
                  x['t0'] <= (r['t1'] if r['t1'] is not None else 1e300)}
        if len(others) > 1:
            st['probe_wildcard_choice>1'] += 1
    if psmk or mi.get('sbk') == 2:
        for lay, off, L in ((psm.get(str(rank), {}).get('r') if psmk else None, rmeta['start'], rmeta['L']),
                            ((psm.get(str(mi['s'])) or {}).get('s') if mi.get('sbk') == 2 else None,
                             mi.get('soff', 0), m['bytes'])):
            if lay and L > 0:
                msk = _shared_mask(lay, max(0, min(off, lay['size'] - L)), L)
                if 0 < sum(msk) < L:
                    st['probe_cross_private_block'] += 1
                    break


def _check_pack(plan, B, rank, itid, d, add, st, bad=()):
    it = [x for x in plan['items'] if x['k'] == 'pack' and x['id'] == itid][0]
    kind = root_kind(plan, it['t'])
    if _uses_bad(plan, (it['t'],), bad):
        kind = 'badlayout'
    ti = B.ti(it['t'])
    nbytes = ti.size * it['count']
    if 'packsize' in d:
        f = d['packsize'][1]
        if f[0] != 'ok' or int(f[1]) < nbytes:
            add('packsize:' + kind, 'Pack_size(%d x %s) = %s, data is %d bytes' % (it['count'], tdesc(plan, it['t']), f[:2], nbytes))
    if 'pack' not in d or 'pdump' not in d:
        return
    f = d['pack'][1]
    pm, pf = d['pdump']
    packed = _rebuild(rank, PACKB, pm['lo'], pm['n'], parse_dump(pf))
    segs = R.seg_list(ti, it['count'])
    data = b''.join(pat_msg(it['id'], l, o) for o, l in segs)
    exp = bytearray(pat_canary(rank, PACKB, pm['lo'], pm['n']))
    exp[GUARD:GUARD + len(data)] = data
    if f[0] != 'ok' or int(f[1]) != nbytes:
        add('pack:' + kind, 'Pack(%d x %s) returned %s position %s, expected ok position %d' %
            (it['count'], tdesc(plan, it['t']), f[0], f[1], nbytes))
    elif packed != exp:
        i = _first_diff(packed, exp, None)
        add('pack:' + kind, 'Pack(%d x %s): packed byte %d is 0x%02x, expected 0x%02x' %
            (it['count'], tdesc(plan, it['t']), i - GUARD, packed[i], exp[i]))
    if 'unpack' not in d or 'udump' not in d:
        return
    f = d['unpack'][1]
    um, uf = d['udump']
    got = _rebuild(rank, RB_HEAP, um['lo'], um['n'], parse_dump(uf))
    exp = bytearray(pat_canary(rank, RB_HEAP, um['lo'], um['n']))
    for o, l in segs:
        exp[GUARD + o:GUARD + o + l] = pat_msg(it['id'], l, o)
    if f[0] != 'ok' or int(f[1]) != nbytes:
        add('unpack:' + kind, 'Unpack(%d x %s) returned %s position %s, expected ok position %d' %
            (it['count'], tdesc(plan, it['t']), f[0], f[1], nbytes))
    elif got != exp and packed[GUARD:GUARD + nbytes] == data:
        i = _first_diff(got, exp, None)
        add('unpack:' + kind, 'Unpack(%d x %s): byte at offset %d is 0x%02x, expected 0x%02x' %
            (it['count'], tdesc(plan, it['t']), i - GUARD, got[i], exp[i]))


# ---------------------------------------------------------------------------------------------------------
# pessimistic (fully synchronous) executor: a plan that completes here cannot deadlock under any buffering
# ---------------------------------------------------------------------------------------------------------
def pessimistic_ok(B):
    np_ = B.np
    pc = [0] * np_
    ps, pr = set(), set()
    arrived = {}
    n = [len(B.ops[r]) for r in range(np_)]

    def matched(side, m):
        return (m in pr) if side == 's' else (m in ps)
    progress = True
    while progress:
        progress = False
        for r in range(np_):
            while pc[r] < n[r]:
                name, args, meta = B.ops[r][pc[r]]
                role = meta.get('r')
                ok = True
                if role == 'send':
                    ps.add(meta['m'])
                    if meta['q'] is None:
                        ok = meta['m'] in pr
                elif role == 'recv':
                    pr.add(meta['m'])
                    if meta['q'] is None:
                        ok = meta['m'] in ps
                elif role == 'probe':
                    ok = meta['kind'] == 'iprobe' or meta['m'] in ps
                elif role == 'sendrecv':
                    ps.add(meta['ms'])
                    pr.add(meta['mr'])
                    ok = meta['ms'] in pr and meta['mr'] in ps
                elif role in ('wait', 'waitall', 'waitany'):
                    ok = all(matched(s, m) for s, m in meta['who'])
                elif role == 'barrier' or (role == 'comm' and 'parts' in meta):
                    key = (role, meta['pos'])
                    arrived.setdefault(key, set()).add(r)
                    ok = len(arrived[key]) == len(meta['parts'])
                if not ok:
                    break
                pc[r] += 1
                progress = True
    return all(pc[r] == n[r] for r in range(np_))


def validate(plan):
    """raises ValueError if the plan is malformed or could deadlock"""
    B = build(plan)
    if not pessimistic_ok(B):
        raise ValueError('plan can deadlock under synchronous sends')
    return B


# ---------------------------------------------------------------------------------------------------------
# generation
# ---------------------------------------------------------------------------------------------------------
def gen_thresholds(rg):
    a = rg.choice([0, 0, 0, 32, 100, 256, 1024, 4096])
    d = rg.choice([x for x in [0, 64, 300, 1024, 4096, 16384, 65536, 65536] if x >= a])
    return a, d


def gen_size(rg, a, d, cap=40000):
    anchors = [0, 1, 2, 3, 7]
    for x in (a, d):
        if x > 0:
            anchors += [x - 1, x, x + 1]
    k = rg.below(10)
    if k < 4:
        v = rg.choice(anchors)
    elif k < 7:
        v = rg.randint(4, 200)
    elif k < 9:
        v = rg.randint(1, max(2 * a, 64) + 1)
    else:
        v = rg.randint(1, min(cap, 2 * max(d, 1024)))
    return max(0, min(v, cap))


def gen_think(rg, p=0.45):
    if not rg.chance(p):
        return None
    ns = int(10 ** (3 + 3.5 * rg.random()))
    if rg.chance(0.3):
        return [1, max(1, ns // 10)]        # flops: ns/10 flops = ns at 1e8..1e10 f/s scaled
    return [0, ns]


def gen_cfg(rg, prof):
    a, d = gen_thresholds(rg)
    cfg = {'smpi/async-small-thresh': a, 'smpi/send-is-detached-thresh': d,
           'smpi/privatization': rg.choice(prof.get('priv', ['dlopen', 'dlopen', 'dlopen', 'mmap'])),
           'smpi/wtime': rg.choice(['0', '0', '0', '1e-8'])}
    if rg.chance(0.3):
        cfg['smpi/iprobe'] = rg.choice(['1e-5', '3e-5', '1e-4'])
    if rg.chance(0.3):
        cfg['smpi/test'] = rg.choice(['0', '1e-5', '1e-4'])
    if rg.chance(0.25):
        cfg['smpi/os'] = rg.choice(['0:1e-6:1e-9', '0:5e-6:0;1024:2e-5:1e-9'])
        cfg['smpi/or'] = rg.choice(['0:1e-6:1e-9', '0:8e-6:0'])
        if rg.chance(0.5):
            cfg['smpi/ois'] = '0:2e-6:0'
    if rg.chance(0.15):
        cfg['network/model'] = rg.choice(['CM02', 'LV08'])
    if rg.chance(0.2):
        cfg['smpi/host-speed'] = rg.choice(['1e8f', '1e10f'])
    return cfg


def _lay_blocks(rg, n, unit, maxgap=3, maxbl=3):
    """n blocks of lengths 0..maxbl laid out without overlap (in `unit`s); returns (bls, disps) in random order"""
    bls, disps = [], []
    pos = rg.randint(0, 2)
    for _ in range(n):
        b = rg.randint(0, maxbl)
        bls.append(b)
        disps.append(pos)
        pos += b + rg.randint(0, maxgap)
    idx = list(range(n))
    if rg.chance(0.4):
        rg.shuffle(idx)
    return [bls[i] for i in idx], [disps[i] * unit for i in idx]


def gen_type(rg, depth, base, mixed=False):
    """random type tree of the given depth over one base type (or mixed bases for a top-level struct)"""
    if depth == 0:
        return ['b', base]
    sub = gen_type(rg, depth - 1 if rg.chance(0.8) else 0, base)
    ti = R.flatten(sub)
    e = ti.extent
    bs = R.BASE[base]
    k = rg.wchoice([('contig', 2), ('vector', 3), ('hvector', 3), ('indexed', 3), ('hindexed', 3), ('indexed_block', 2),
                    ('struct', 3), ('resized', 2), ('subarray', 3)])
    if k == 'contig':
        return ['contig', rg.randint(0, 4), sub]
    if k == 'vector':
        bl = rg.randint(0, 3)
        return ['vector', rg.randint(0, 4), bl, bl + rg.randint(0, 3), sub]
    if k == 'hvector':
        bl = rg.randint(0, 3)
        return ['hvector', rg.randint(0, 4), bl, bl * e + bs * rg.randint(0, 4), sub]
    if k == 'indexed':
        bls, disps = _lay_blocks(rg, rg.randint(1, 4), 1)
        return ['indexed', bls, disps, sub]
    if k == 'hindexed':
        bls, disps = _lay_blocks(rg, rg.randint(1, 4), 1)
        # byte displacements: block i needs bls*e bytes
        pos = bs * rg.randint(0, 2)
        out = []
        order = sorted(range(len(bls)), key=lambda i: disps[i])
        d2 = [0] * len(bls)
        for i in order:
            d2[i] = pos
            pos += bls[i] * e + bs * rg.randint(0, 3)
        return ['hindexed', bls, d2, sub]
    if k == 'indexed_block':
        bl = rg.randint(0, 3)
        n = rg.randint(1, 4)
        pos = rg.randint(0, 2)
        disps = []
        for _ in range(n):
            disps.append(pos)
            pos += bl + rg.randint(0, 3)
        if rg.chance(0.4):
            rg.shuffle(disps)
        return ['indexed_block', bl, disps, sub]
    if k == 'struct':
        n = rg.randint(1, 3)
        subs = [sub] + [gen_type(rg, rg.randint(0, max(0, depth - 1)), base) for _ in range(n - 1)]
        if mixed:
            subs = [s if rg.chance(0.4) else ['b', rg.choice(['CHAR', 'SHORT', 'INT', 'DOUBLE'])] for s in subs]
        bls = [rg.randint(0, 2) for _ in range(n)]
        unit = 8 if mixed else bs
        pos = unit * rg.randint(0, 2)
        disps = []
        for s, b in zip(subs, bls):
            si = R.flatten(s)
            disps.append(pos)
            need = b * si.extent + max(0, si.true_ub - si.ub if si.size else 0) + max(0, si.lb)
            pos += (need + unit - 1) // unit * unit + unit * rg.randint(0, 2)
        idx = list(range(n))
        if rg.chance(0.3):
            rg.shuffle(idx)
        return ['struct', [bls[i] for i in idx], [disps[i] for i in idx], [subs[i] for i in idx]]
    if k == 'resized':
        tl, tu = ti.true_lb, ti.true_ub
        lb = rg.choice([0, tl, max(0, tl - bs)])
        if lb > tl:
            lb = 0
        ext = max(tu - lb, 0) + bs * rg.randint(0, 3)
        return ['resized', sub, lb, ext]
    nd = rg.randint(1, 3)
    sizes = [rg.randint(1, 4) for _ in range(nd)]
    subsizes = [rg.randint(0 if rg.chance(0.1) else 1, s) for s in sizes]
    starts = [rg.randint(0, s - ss) for s, ss in zip(sizes, subsizes)]
    return ['subarray', sizes, subsizes, starts, rg.below(2), sub]


def gen_recv_type(rg, base, maxspan=6000):
    """a type usable on the receive side with count up to 5: instances must not overlap"""
    for _ in range(40):
        t = gen_type(rg, rg.randint(1, 3), base)
        ti = R.flatten(t)
        if R.any_epsilon(t) or ti.lb < 0 or ti.true_lb < 0:
            continue
        if R.span(ti, 5)[1] > maxspan or R.overlaps(ti, 5):
            continue
        return t
    return ['contig', 2, ['b', base]]


def elems(ti):
    return sum(n for _, n in ti.sig)


def new_msg(rg, mid, s, d, c, tag, a, dthr, prof):
    m = dict(k='msg', id=mid, s=s, d=d, c=c, tag=tag)
    m['sm'] = rg.wchoice([(0, 30), (4, 25), (1, 10), (5, 5), (2, 8), (6, 4)])
    m['rm'] = rg.wchoice([('recv', 40), ('irecv', 35), ('probe', 12 * prof.get('probes', 1)), ('iprobe', 8 * prof.get('probes', 1))])
    if rg.chance(0.2):
        m['rtg'] = ANY
    if m['sm'] >= 4:
        m['sw'] = rg.choice([0, 0, 1, 2, 4])
        m['wks'] = rg.below(5)
    if m['rm'] == 'irecv':
        m['rw'] = rg.choice([0, 0, 1, 2, 4])
        m['wkr'] = rg.below(5)
        if rg.chance(0.3):
            m['hoist'] = rg.randint(1, 4)
    m['ts'] = gen_think(rg)
    m['tr'] = gen_think(rg)
    if rg.chance(0.3):
        m['mis'] = rg.randint(1, 7)
    if rg.chance(0.3):
        m['mir'] = rg.randint(1, 7)
    return m


def set_plain_payload(rg, m, size, base=None):
    base = base or rg.wchoice([('BYTE', 6), ('CHAR', 1), ('INT', 1), ('DOUBLE', 1), ('SHORT', 1)])
    n = size // R.BASE[base]
    m['st'] = m['rt'] = base
    m['sc'] = n
    m['rc'] = n + (rg.choice([0, 0, 1, 5, 100]))


def gen_plan(seed, tier, prof):
    rg = Rng(seed, 'mpisim', prof['name'])
    lo, hi = prof['np']
    np_ = rg.randint(lo, hi)
    plat, hostmap = gen_platform(Rng(seed, 'platform'), np_)
    cfg = gen_cfg(Rng(seed, 'knobs'), prof)
    a, dthr = cfg['smpi/async-small-thresh'], cfg['smpi/send-is-detached-thresh']
    plan = dict(v=1, check=prof['name'], seed=seed, np=np_, cfg=cfg, plat=plat, hostmap=hostmap, types=[], setup=[],
                items=[])
    if prof.get('gvars'):
        plan['gvars'] = True
    # ---- communicators
    comms = {0: [list(range(np_))]}        # slot -> list of instances (member lists)
    nslot = [2]
    ngrp = [0]
    rs = Rng(seed, 'comms')

    def add_split(old):
        inst = comms[old]
        color = [rs.choice([0, 0, 1, 1, 2, R.UNDEFINED]) for _ in range(np_)]
        key = [rs.choice([0, 0, 1, 2, -1, 5, w]) for w in range(np_)]
        new = nslot[0]
        nslot[0] += 1
        out = []
        for g in inst:
            res = R.comm_split(g, {w: color[w] for w in g}, {w: key[w] for w in g})
            for w in g:
                if res[w] is not None and res[w] not in out:
                    out.append(res[w])
        comms[new] = out
        return dict(op='split', new=new, old=old, color=color, key=key)

    def add_dup(old):
        new = nslot[0]
        nslot[0] += 1
        comms[new] = [list(g) for g in comms[old]]
        return dict(op='dup', new=new, old=old)
    ncomm = prof.get('ncomm', (0, 2))
    for _ in range(rs.randint(*ncomm)):
        old = rs.choice(sorted(comms))
        if not comms[old]:
            continue
        plan['setup'].append(add_split(old) if rs.chance(0.6) else add_dup(old))
    if prof.get('groups'):
        _gen_group_algebra(rs, plan, np_, comms, nslot, ngrp)
    usable = [(c, g) for c in sorted(comms) for g in comms[c] if len(g) >= 2]
    if np_ >= 1 and prof.get('self_msgs') and not usable:
        usable = [(0, list(range(np_)))]
    # ---- traffic
    nm = rg.randint(*prof['nmsg'][tier if tier in prof['nmsg'] else 'quick'])
    tags = [rg.randint(0, 9) for _ in range(rg.randint(1, 3))]
    items = plan['items']
    mid = [1]
    uniq_tag = [1000]
    trunc_left = 1 if rg.chance(prof.get('trunc', 0)) else 0
    tgen = Rng(seed, 'types')

    def payload(m):
        if prof.get('types') == 'derived' and tgen.chance(0.8):
            _derived_payload(tgen, plan, m, a, dthr)
        else:
            set_plain_payload(rg, m, gen_size(rg, a, dthr, prof.get('cap', 40000)))
        if prof.get('gvars'):
            if rg.chance(0.5):
                m['sbk'] = 1
            if rg.chance(0.5):
                m['rbk'] = 1
    while len([x for x in items if x['k'] == 'msg']) < nm and usable:
        kind = rg.wchoice([('stream', 60), ('fanin', 14 * prof.get('wild', 0)), ('fanany', 8 * prof.get('wild', 0)),
                           ('ring', 8), ('rsend', 5), ('barrier', 3), ('coll', 4 * prof.get('midcoll', 0)),
                           ('cross', 25 * prof.get('cross', 0.4)),
                           ('pack', 6 * prof.get('pack', 0))])
        c, g = rg.choice(usable)
        if kind == 'stream':
            for _ in range(rg.randint(1, 6)):
                c, g = rg.choice(usable)
                s, d = rg.sample(g, 2) if len(g) >= 2 else (g[0], g[0])
                if prof.get('self_msgs') and rg.chance(0.05):
                    d = s
                m = new_msg(rg, mid[0], s, d, c, rg.choice(tags), a, dthr, prof)
                mid[0] += 1
                payload(m)
                if s == d:
                    m['sm'] = 4
                    m['sw'] = 1
                    m['rm'] = rg.choice(['recv', 'irecv'])
                    m['hoist'] = 0
                if trunc_left and s != d and is_plain(plan, m['st']) and m['sc'] >= 2 and rg.chance(0.3):
                    trunc_left = 0
                    m['trunc'] = True
                    m['rc'] = rg.randint(0, m['sc'] - 1)
                    m['rm'] = rg.choice(['recv', 'irecv'])
                items.append(m)
        elif kind == 'cross':
            # the same (sender, receiver, tag) on two different communicators; the receives are posted in the opposite
            # order of the sends, which is legal only because matching is per communicator
            pairs = [(c1, g1, c2, g2) for (c1, g1) in usable for (c2, g2) in usable
                     if (c1, g1) < (c2, g2) and len(set(g1) & set(g2)) >= 2 and (c1 != c2)]
            if pairs:
                c1, g1, c2, g2 = rg.choice(pairs)
                s, d = rg.sample(sorted(set(g1) & set(g2)), 2)
                tag = rg.choice(tags)
                ma = new_msg(rg, mid[0], s, d, c1, tag, a, dthr, prof)
                mb = new_msg(rg, mid[0] + 1, s, d, c2, tag, a, dthr, prof)
                mid[0] += 2
                for m in (ma, mb):
                    payload(m)
                    m['sm'] = rg.choice([4, 4, 6, 0]) if m is ma else rg.choice([0, 4, 1, 2])
                    if m['sm'] >= 4:
                        m['sw'] = rg.choice([1, 2])
                        m['wks'] = rg.below(5)
                    else:
                        m.pop('sw', None)
                    m['rm'] = 'irecv'
                    m['rw'] = rg.choice([1, 2])
                    m['wkr'] = rg.below(5)
                    m.pop('rtg', None) if rg.chance(0.7) else None
                ma.pop('hoist', None)
                mb['hoist'] = 1
                if ma['sm'] == 0:
                    ma['sm'] = 4
                    ma['sw'] = 1
                    ma['wks'] = 0
                items.append(ma)
                items.append(mb)
        elif kind in ('fanin', 'fanany') and len(g) >= 2:
            d = rg.choice(g)
            senders = rg.sample([w for w in g if w != d], rg.randint(1, min(4, len(g) - 1)))
            ph = []
            tag = uniq_tag[0]
            uniq_tag[0] += 1
            for s in senders:
                for _ in range(rg.randint(1, 2)):
                    m = new_msg(rg, mid[0], s, d, c, tag if kind == 'fanin' else rg.choice(tags + [tag]), a, dthr, prof)
                    mid[0] += 1
                    set_plain_payload(rg, m, gen_size(rg, a, dthr, prof.get('cap', 40000)), 'BYTE')
                    m['rs'] = ANY
                    m['hoist'] = 0
                    m['sw'] = 0 if m['sm'] >= 4 else None
                    m['rw'] = None
                    if kind == 'fanany':
                        m['rtg'] = ANY
                    elif 'rtg' in m:
                        del m['rtg']
                    ph.append(m)
            rg.shuffle(ph)
            mx = max(m['sc'] for m in ph)
            style = rg.choice(['recv', 'irecv', 'mixed'])
            for i, m in enumerate(ph):
                m['rc'] = mx
                m['ph'] = tag
                if m['rm'] == 'irecv' or style == 'irecv':
                    m['rm'] = 'irecv'
                    m['rw'] = len(ph) - 1 - i      # complete all receives of the phase together, at its end
                    m['wkr'] = rg.choice([2, 3, 4]) if style == 'irecv' else m.get('wkr', 0)
                elif style == 'recv' and m['rm'] not in ('probe', 'iprobe'):
                    m['rm'] = 'recv'
            # receives must be posted in phase order on the receiver and nothing else may interleave there:
            # the phase is contiguous in the global order
            if kind == 'fanany':
                items.append(dict(k='barrier', c=0))
            items.extend(ph)
            if kind == 'fanany':
                items.append(dict(k='barrier', c=0))
        elif kind == 'ring' and len(g) >= 2:
            # every member sends to its right neighbour and receives from the left one with MPI_Sendrecv
            tag = rg.choice(tags)
            ms = []
            for i, w in enumerate(g):
                m = new_msg(rg, mid[0], w, g[(i + 1) % len(g)], c, tag, a, dthr, prof)
                mid[0] += 1
                payload(m)
                m['sm'] = 0
                m['rm'] = 'recv'
                m.pop('hoist', None)
                ms.append(m)
            for i, m in enumerate(ms):
                m['srf'] = ms[i - 1]['id']     # my send is fused with the receive of my left neighbour's message
            # item order such that, on each rank, its send entry is immediately followed by its receive entry
            items.extend(_ring_order(ms))
        elif kind == 'rsend' and len(g) >= 2:
            s, d = rg.sample(g, 2)
            rdy = new_msg(rg, mid[0], d, s, c, rg.choice(tags), a, dthr, prof)
            mid[0] += 1
            set_plain_payload(rg, rdy, 0, 'BYTE')
            rdy['rm'] = 'recv'
            rdy.pop('hoist', None)
            rdy.pop('rtg', None)
            if rdy['sm'] >= 4:
                rdy['sw'] = 0
            m = new_msg(rg, mid[0], s, d, c, rg.choice(tags), a, dthr, prof)
            mid[0] += 1
            payload(m)
            m['sm'] = rg.choice([3, 3, 7])
            if m['sm'] == 7:
                m['sw'] = rg.choice([0, 1])
                m['wks'] = rg.below(5)
            else:
                m.pop('sw', None)
            m['rm'] = 'irecv'
            m['rw'] = rg.choice([0, 1, 2])
            m['wkr'] = rg.below(5)
            m['rdy'] = rdy['id']
            m.pop('hoist', None)
            items.append(rdy)
            items.append(m)
        elif kind == 'barrier':
            t = {str(w): gen_think(rg, 0.5) for w in range(np_)}
            items.append(dict(k='barrier', c=0, t=t))
        elif kind == 'coll':
            old = rg.choice(sorted(comms))
            if comms[old]:
                st = add_split(old) if rs.chance(0.5 if not prof.get('gvars') else 0.25) else add_dup(old)
                items.append(dict(k='coll', step=st))
                usable = [(c2, g2) for c2 in sorted(comms) for g2 in comms[c2] if len(g2) >= 2]
        elif kind == 'pack' and plan['types']:
            ti_ = rg.below(len(plan['types']))
            items.append(dict(k='pack', id=mid[0], rank=rg.below(np_), t=ti_, count=rg.randint(0, 4),
                              slack=rg.choice([0, 0, 8])))
            mid[0] += 1
    if prof.get('psm'):
        _gen_psm(Rng(seed, 'psm'), plan, a, dthr)
    if prof.get('free_comms') and rg.chance(0.5):
        for c in sorted(comms):
            if c >= 2 and rg.chance(0.5):
                plan['setup_end'] = plan.get('setup_end', [])
                items.append(dict(k='coll', step=dict(op='cfree', c=c)))
                break
    return plan


def _ring_order(ms):
    """order ring messages so that each rank's send entry immediately precedes its receive entry in its own
    projection of the global order: m0, then m_{n-1}, m_{n-2}, ... m1 does not work in general; instead interleave:
    rank i has entries S(m_i) and R(m_{i-1}). Emitting m_0, m_1, ..., m_{n-1} gives rank i: R(m_{i-1}) then S(m_i)
    except rank 0: S(m_0) ... R(m_{n-1}). The builder fuses S followed by R, so emit in reverse order."""
    return list(reversed(ms))


def _derived_payload(rg, plan, m, a, dthr):
    base = rg.wchoice([('INT', 4), ('BYTE', 2), ('DOUBLE', 2), ('SHORT', 1), ('CHAR', 1)])
    types = plan['types']

    def pick_or_new():
        same = [i for i, t in enumerate(types) if _base_of(t) == base]
        if same and rg.chance(0.5) or len(types) >= 8:
            if same:
                return rg.choice(same)
        types.append(gen_recv_type(rg, base))
        return len(types) - 1
    mode = rg.wchoice([('s', 3), ('r', 3), ('sr', 3), ('same', 2)])
    if mode in ('s', 'sr', 'same'):
        st = pick_or_new()
        sti = R.flatten(types[st])
        sc = rg.randint(0, 5)
        n = sc * elems(sti)
        m['st'], m['sc'] = st, sc
    else:
        n = rg.randint(0, 40)
        m['st'], m['sc'] = base, n
    if mode == 'same':
        m['rt'], m['rc'] = m['st'], m['sc'] + rg.choice([0, 0, 1])
        if m['rc'] > 5:
            m['rc'] = 5
            m['sc'] = min(m['sc'], 5)
        return
    if mode in ('r', 'sr'):
        for _ in range(6):
            rt = pick_or_new()
            e = elems(R.flatten(types[rt]))
            if e > 0 and n % e == 0 and n // e <= 5:
                m['rt'], m['rc'] = rt, min(5, n // e + rg.choice([0, 0, 1]))
                return
            if e > 0 and rg.chance(0.08) and (n + e - 1) // e <= 5:
                m['rt'], m['rc'] = rt, (n + e - 1) // e        # partial last instance
                m['partial'] = True
                return
    m['rt'], m['rc'] = base, n + rg.choice([0, 0, 3])


def _base_of(t):
    while t[0] != 'b':
        t = t[3][0] if t[0] == 'struct' else (t[1] if t[0] == 'resized' else t[-1])
    return t[1]


def _gen_psm(rg, plan, a, dthr):
    np_ = plan['np']
    cfgbs = rg.choice([4096, 8192, 1048576])
    plan['cfg']['smpi/shared-malloc-blocksize'] = cfgbs
    psm = {}
    for r in range(np_):
        lay = {}
        for side in ('s', 'r'):
            size = rg.choice([8192, 12288, 20000, 32768, 40960, 49152]) + rg.choice([0, 0, 1, 100])
            nb = rg.randint(1, 4)
            cuts = sorted(set([rg.choice([0, 0, 4096, 100, 5000, 8192]) if i == 0 else
                               (rg.randint(1, size - 1) if rg.chance(0.5) else rg.randint(1, size // 4096) * 4096 - rg.choice([0, 0, 1]))
                               for i in range(2 * nb)]))
            cuts = [x for x in cuts if 0 <= x <= size]
            if rg.chance(0.3) and cuts and cuts[-1] != size:
                cuts.append(size)
            if len(cuts) % 2:
                cuts = cuts[:-1]
            blocks = [[cuts[i], cuts[i + 1]] for i in range(0, len(cuts), 2) if cuts[i] < cuts[i + 1]]
            if not blocks:
                blocks = [[4096, 8192]]
            lay[side] = dict(size=size, shared=blocks)
        psm[str(r)] = lay
    plan['psm'] = psm
    for m in plan['items']:
        if m['k'] != 'msg':
            continue
        which = rg.wchoice([('s', 3), ('r', 3), ('sr', 4)])
        size = rg.choice([1, 17, 300, 4096, 5000, 9000]) if rg.chance(0.5) else rg.randint(1, 20000)
        lim = 20000
        if 's' in which:
            lim = min(lim, psm[str(m['s'])]['s']['size'] - 8)
        if 'r' in which:
            lim = min(lim, psm[str(m['d'])]['r']['size'] - 8)
        size = min(size, lim)
        m['st'] = m['rt'] = 'BYTE'
        m['sc'] = size
        m['rc'] = size + rg.choice([0, 0, 0, 7])
        m.pop('trunc', None)
        for side, key, bk in (('s', 'soff', 'sbk'), ('r', 'roff', 'rbk')):
            if side in which:
                lay = psm[str(m['s'] if side == 's' else m['d'])][side]
                m[bk] = 2
                priv = _private_blocks(lay)
                L = m['sc'] if side == 's' else m['rc']
                mode = rg.below(6)
                if priv and mode < 4:
                    p0, p1 = rg.choice(priv)
                    if mode == 0:
                        off = rg.randint(p0, max(p0, p1 - 1))          # starts inside a private block
                    elif mode == 1:
                        off = max(0, p0 - rg.randint(1, 600))           # starts before it (in shared memory) and runs across
                    elif mode == 2:
                        off = p0                                        # exactly at its start
                    else:
                        off = max(0, p1 - rg.randint(1, 64))            # straddles its end
                elif mode == 4:
                    off = 0
                else:
                    off = rg.randint(0, lay['size'] - 1)
                m[key] = max(0, min(off, lay['size'] - L))
            else:
                m[bk] = 0
        # one in-flight operation per partial-shared buffer: no deferred waits, no hoisting
        if m.get('sw') is not None:
            m['sw'] = 0
        if m.get('rw') is not None and m.get('ph') is None:
            m['rw'] = 0
        m.pop('hoist', None)
        if m.get('ph') is not None and m.get('rm') == 'irecv':
            m['rbk'] = 0


def _private_blocks(lay):
    out = []
    pos = 0
    for a, b in lay['shared']:
        if a > pos:
            out.append((pos, a))
        pos = b
    if pos < lay['size']:
        out.append((pos, lay['size']))
    return out


def _gen_group_algebra(rs, plan, np_, comms, nslot, ngrp):
    """group constructors over uniform groups (derived from MPI_COMM_WORLD) + communicators made from them"""
    S = plan['setup']
    groups = {}         # slot -> list (uniform on all ranks)

    def newg():
        ngrp[0] += 1
        return ngrp[0] - 1
    g0 = newg()
    S.append(dict(op='cgroup', g=g0, c=0))
    groups[g0] = list(range(np_))
    for _ in range(rs.randint(3, 12)):
        src = rs.choice(sorted(groups))
        g = groups[src]
        k = rs.wchoice([('gincl', 3), ('gexcl', 3), ('grincl', 3), ('grexcl', 3), ('gunion', 3), ('ginter', 3), ('gdiff', 3),
                        ('gtrans', 3), ('gcmp', 2), ('ginfo', 1), ('create', 2), ('create2', 1), ('splitgrp', 1)])
        if k in ('gincl', 'gexcl'):
            ranks = rs.sample(range(len(g)), rs.randint(0, len(g))) if g else []
            n = newg()
            S.append(dict(op=k, g=n, ranks=ranks, **{'from': src}))
            groups[n] = R.g_incl(g, ranks) if k == 'gincl' else R.g_excl(g, ranks)
        elif k in ('grincl', 'grexcl'):
            ranges = []
            used = set()
            for _ in range(rs.randint(0, 3)):
                if not g:
                    break
                f = rs.below(len(g))
                s = rs.choice([1, 1, 2, 3, -1, -2])
                cnt = rs.randint(1, 4)
                last = f
                rr = []
                for i in range(cnt):
                    x = f + i * s
                    if not 0 <= x < len(g) or x in used:
                        break
                    rr.append(x)
                    last = x
                if not rr:
                    continue
                # 'last' may overshoot the final selected rank as long as no further rank is reachable
                l = last
                if rs.chance(0.3) and 0 <= last + (1 if s > 0 else -1) * (abs(s) - 1) < len(g) and abs(s) > 1:
                    l = last + (1 if s > 0 else -1) * (abs(s) - 1)
                used.update(rr)
                ranges.append([f, l, s])
            n = newg()
            S.append(dict(op=k, g=n, ranges=ranges, **{'from': src}))
            groups[n] = R.g_range_incl(g, ranges) if k == 'grincl' else R.g_range_excl(g, ranges)
        elif k in ('gunion', 'ginter', 'gdiff'):
            o = rs.choice(sorted(groups) + [-1])
            ob = [] if o == -1 else groups[o]
            n = newg()
            S.append(dict(op=k, g=n, a=src, b=o))
            groups[n] = {'gunion': R.g_union, 'ginter': R.g_intersection, 'gdiff': R.g_difference}[k](g, ob)
        elif k == 'gtrans':
            o = rs.choice(sorted(groups))
            if g:
                S.append(dict(op='gtrans', a=src, b=o, ranks=[rs.below(len(g)) for _ in range(rs.randint(1, 6))]))
        elif k == 'gcmp':
            S.append(dict(op='gcmp', a=src, b=rs.choice(sorted(groups) + [-1])))
        elif k == 'ginfo':
            S.append(dict(op='ginfo', g=src))
        elif k == 'create':
            new = nslot[0]
            nslot[0] += 1
            S.append(dict(op='create', new=new, old=0, g=src))
            comms[new] = [list(g)] if g else []
        elif k == 'create2' and len(g) >= 2:
            # two disjoint groups passed by their respective members, MPI_GROUP_EMPTY by everyone else
            cut = rs.randint(1, len(g) - 1)
            ga, gb = newg(), newg()
            S.append(dict(op='gincl', g=ga, ranks=list(range(cut)), **{'from': src}))
            S.append(dict(op='gincl', g=gb, ranks=list(range(cut, len(g))), **{'from': src}))
            groups[ga], groups[gb] = g[:cut], g[cut:]
            new = nslot[0]
            nslot[0] += 1
            gmap = [ga if w in g[:cut] else gb if w in g[cut:] else -1 for w in range(np_)]
            S.append(dict(op='create', new=new, old=0, gmap=gmap))
            comms[new] = [x for x in (g[:cut], g[cut:]) if x]
        elif k == 'splitgrp':
            cands = [c for c in sorted(comms) if c >= 2 and comms[c]]
            if cands:
                c = rs.choice(cands)
                n = newg()
                S.append(dict(op='cgroup', g=n, c=c))
                S.append(dict(op='ginfo', g=n))
                S.append(dict(op='gcmp', a=n, b=g0))
                S.append(dict(op='ccmp', a=c, b=rs.choice(sorted(comms))))


# ---------------------------------------------------------------------------------------------------------
# shrinking
# ---------------------------------------------------------------------------------------------------------
def _copy(plan):
    import json
    return json.loads(json.dumps(plan))


def _valid(p):
    try:
        validate(p)
        return True
    except (ValueError, KeyError, IndexError, AssertionError):
        return False


def shrink_candidates(plan):
    items = plan['items']
    n = len(items)
    # 1. drop chunks of items, then single items
    size = n // 2
    while size >= 1:
        for i in range(0, n, size):
            p = _copy(plan)
            del p['items'][i:i + size]
            if p['items'] != items and _valid(p):
                yield p
        size //= 2
    # 2. drop the last rank when nothing uses it
    if plan['np'] > 1:
        last = plan['np'] - 1
        if not any((it['k'] == 'msg' and last in (it['s'], it['d'])) or (it['k'] == 'pack' and it['rank'] == last) for it in items):
            p = _copy(plan)
            p['np'] = last
            p['hostmap'] = p['hostmap'][:last]
            nh = max(p['hostmap']) + 1 if p['hostmap'] else 1
            if p['plat']['kind'] == 'cluster':
                p['plat']['nh'] = max(nh, 1)
            for st in p['setup'] + [it['step'] for it in p['items'] if it['k'] == 'coll']:
                for k in ('color', 'key', 'gmap'):
                    if k in st:
                        st[k] = st[k][:last]
            if p.get('psm'):
                p['psm'].pop(str(last), None)
            for it in p['items']:
                if it['k'] == 'barrier' and 't' in it:
                    it['t'].pop(str(last), None)
            if _valid(p):
                yield p
    # 3. drop setup steps
    for i in range(len(plan['setup']) - 1, -1, -1):
        p = _copy(plan)
        del p['setup'][i]
        if _valid(p):
            yield p
    # 4. remove think times, deferred waits, hoists, misalignment (all at once, then per message)
    keys = ('ts', 'tr', 'hoist', 'mis', 'mir')
    if any(it.get(k) for it in items for k in keys):
        p = _copy(plan)
        for it in p['items']:
            for k in keys:
                it.pop(k, None)
        if _valid(p):
            yield p
    for i, it in enumerate(items):
        if it['k'] != 'msg':
            continue
        for k in keys:
            if it.get(k):
                p = _copy(plan)
                p['items'][i].pop(k)
                if _valid(p):
                    yield p
        for k in ('sw', 'rw'):
            if it.get(k):
                p = _copy(plan)
                p['items'][i][k] = 0
                if _valid(p):
                    yield p
        for k in ('wks', 'wkr'):
            if it.get(k):
                p = _copy(plan)
                p['items'][i][k] = 0
                if _valid(p):
                    yield p
        if it.get('rm') in ('probe', 'iprobe'):
            p = _copy(plan)
            p['items'][i]['rm'] = 'recv'
            if _valid(p):
                yield p
        if it.get('sm') in (4, 5, 6) and it.get('sw') in (0, None):
            p = _copy(plan)
            p['items'][i]['sm'] -= 4
            p['items'][i].pop('sw', None)
            if _valid(p):
                yield p
        if it.get('rm') == 'irecv' and it.get('rw') in (0, None) and it.get('rdy') is None:
            p = _copy(plan)
            p['items'][i]['rm'] = 'recv'
            if _valid(p):
                yield p
    # 5. shrink sizes / simplify types
    for i, it in enumerate(items):
        if it['k'] == 'msg':
            if isinstance(it['st'], str) and isinstance(it['rt'], str) and it['sc'] > 0:
                for nsz in (0, 1, it['sc'] // 2, it['sc'] - 1):
                    if nsz < it['sc']:
                        p = _copy(plan)
                        q = p['items'][i]
                        extra = max(0, it['rc'] - it['sc']) if not it.get('trunc') else 0
                        q['sc'] = nsz
                        q['rc'] = nsz + extra if not it.get('trunc') else min(it['rc'], max(0, nsz - 1))
                        if _valid(p):
                            yield p
            else:
                for side, ck in (('st', 'sc'), ('rt', 'rc')):
                    if not isinstance(it[side], str):
                        ti = R.flatten(plan['types'][it[side]])
                        p = _copy(plan)
                        q = p['items'][i]
                        q[side] = _base_of(plan['types'][it[side]])
                        q[ck] = elems(ti) * it[ck]
                        if side == 'st' and isinstance(q['rt'], str):
                            q['rc'] = max(q['rc'], q['sc'])
                        if _valid(p) and _sig_ok(p, q):
                            yield p
                for ck in ('sc',):
                    if it[ck] > 0:
                        p = _copy(plan)
                        p['items'][i][ck] = it[ck] - 1
                        if _valid(p):
                            yield p
        elif it['k'] == 'pack' and it['count'] > 1:
            p = _copy(plan)
            p['items'][i]['count'] = 1
            yield p
    # 6. replace a type by one of its subtrees
    for ti_, t in enumerate(plan.get('types', [])):
        subs = t[3] if t[0] == 'struct' else [t[1]] if t[0] == 'resized' else [t[-1]]
        for sub in subs:
            if sub[0] == 'b':
                continue
            p = _copy(plan)
            p['types'][ti_] = sub
            ok = True
            for it in p['items']:
                if it['k'] == 'msg' and (it['st'] == ti_ or it['rt'] == ti_) and not _sig_ok(p, it):
                    ok = False
            if ok and _valid(p):
                yield p
    # 7. simplify configuration and platform
    base_cfg = ('smpi/async-small-thresh', 'smpi/send-is-detached-thresh', 'smpi/privatization', 'smpi/shared-malloc-blocksize')
    for k in sorted(plan['cfg']):
        if k not in base_cfg:
            p = _copy(plan)
            del p['cfg'][k]
            yield p
    if plan['plat']['kind'] != 'cluster' or len(plan['plat']) > 5:
        p = _copy(plan)
        p['plat'] = dict(kind='cluster', nh=plan['np'], speed=1e9, bw=125000000, lat=5e-5)
        p['hostmap'] = list(range(plan['np']))
        yield p
    if plan.get('psm'):
        for r in sorted(plan['psm']):
            for side in ('s', 'r'):
                sh = plan['psm'][r][side]['shared']
                for j in range(len(sh)):
                    if len(sh) > 1:
                        p = _copy(plan)
                        del p['psm'][r][side]['shared'][j]
                        yield p


def _sig_ok(plan, it):
    try:
        s = R.signature(R.flatten(tdesc(plan, it['st'])), it['sc'])
        r = R.signature(R.flatten(tdesc(plan, it['rt'])), it['rc'])
    except (IndexError, KeyError):
        return False
    return R.sig_prefix(s, r)


# ---------------------------------------------------------------------------------------------------------
# the check base class
# ---------------------------------------------------------------------------------------------------------
ALWAYS = ('abort', 'crash-', 'deadlock', 'log-desync', 'hang')


class MpiCheck(dst.Check):
    level = 'exploration'
    prof = {}
    own = ()            # violation class prefixes that belong to this property
    probes = ('probe_recv_posted_first', 'probe_send_first_eager', 'probe_rendezvous', 'probe_detached')
    max_reported = 4

    @property
    def shrink_budget(self):
        import sys
        return 120 if 'thorough' in sys.argv else 25
    real_vs_stub = {
        'SMPI (matching, protocols, datatypes, communicators, shared malloc, privatization)': 'real',
        'SimGrid kernel, network and CPU models, contexts': 'real',
        'MPI application': 'stub: generated-plan interpreter sim/mpisim.c compiled with the tree\'s smpicc',
        'platform': 'stub: generated XML (cluster or star), seeded latencies/bandwidths/speeds',
        'launcher': 'real smpimain, invoked directly with the command line smpirun builds (smpirun itself bypassed)',
    }
    assumptions = [
        'the interpreter (sim/mpisim.c) executes the plan faithfully and logs what MPI returned; it is part of the trusted base',
        'wall-clock computation injection is off (smpi/simulate-computation:no) so that a plan is one repeatable execution',
        'SMPI_PARTIAL_SHARED_MALLOC uses a /tmp backing file created and unlinked by SMPI itself (not by the framework)',
        'lines of the log interleave in execution order because the kernel runs one rank at a time (sequential contexts)',
        'the simulation process runs with address-space randomisation off (personality ADDR_NO_RANDOMIZE) so that even memory-unsafe behaviour of the code under test replays exactly',
    ]

    def gen(self, seed, tier):
        for attempt in range(20):
            plan = gen_plan(seed + attempt * 7919, tier, self.prof)
            try:
                validate(plan)
                return plan
            except ValueError:
                continue
        raise dst.Infra('generator could not produce a deadlock-free plan for seed %d' % seed)

    def run(self, plan, scratch):
        try:
            res = run_plan(plan, scratch)
        except (ValueError, KeyError, IndexError) as e:
            raise dst.Infra('malformed plan: %r' % (e,))
        A = analyze(plan, res)
        tail = [l for l in res['err'].split('\n') if l and 'Configuration change' not in l][-6:]
        return dict(hash=dst.sha(res['log'], res['rc']), viol=[[c, m] for c, m in A.viol], stats=A.stats, sig=A.sig,
                    complete=A.complete, rc=res['rc'], err_tail=tail, nlines=len(A.order))

    def mine(self, cls):
        return cls in ALWAYS or any(cls == o or cls.startswith(o) for o in self.own)

    ROOTS = ('overtake', 'recv-order', 'probe-order', 'stuck-match', 'trunc-stall')
    DATATYPE = ('layout-', 'xfer', 'pack', 'unpack')

    @staticmethod
    def family(c):
        """fine class of analyze() -> stable short id reported by the checks"""
        if c.startswith('layout-'):
            return c.split(':')[0]
        if c == 'xfer-canary':
            return c
        if c.startswith('xfer'):
            return 'xfer'
        if c.startswith(('packsize', 'pack', 'unpack')):
            return c.split(':')[0]
        if c in ('trunc-deadlock', 'trunc-hang'):
            return 'trunc-stall'
        if c == 'group-order:ginter':
            return 'inter-order'
        return c

    def oracle(self, plan, res):
        seen = set()
        out = []
        fam = [(self.family(c), c, m) for c, m in res['viol']]
        classes = [f for f, _, _ in fam]
        roots = [f for f in classes if f in self.ROOTS]
        dtype = any(f.startswith(self.DATATYPE) for f in classes)
        for f, c, m in fam:
            if roots and f not in self.ROOTS and f != 'status-testall' and not f.startswith(('split-', 'dup-', 'create-', 'group-',
                                                                                           'inter-order', 'translate', 'compare',
                                                                                           'layout-', 'global-leak', 'psm-')):
                continue    # once a message was matched out of order, later observations of the run are consequences
            if dtype and not f.startswith(self.DATATYPE) and f in ('abort', 'crash-segv', 'crash-bus', 'deadlock', 'hang', 'count-type'):
                continue    # the datatype engine wrote outside its buffers: blame the datatype failure
            if self.mine(f) and f not in seen:
                seen.add(f)
                out.append((f, ('[%s] ' % c if c != f else '') + m))
        return out

    def signature(self, plan, res):
        return res['sig']

    def stats(self, plan, res):
        s = dict(res['stats'])
        for k in list(s):
            if k.startswith('probe_') and k not in self.probes:
                del s[k]
        for c, _ in res['viol']:
            if not self.mine(self.family(c)):
                s['foreign_' + c] = s.get('foreign_' + c, 0) + 1
        s['runs_complete'] = 1 if res['complete'] else 0
        return s

    def shrink(self, plan):
        return shrink_candidates(plan)

    def known_matchers(self):
        def athr(plan):
            return int(plan['cfg'].get('smpi/async-small-thresh', 0))
        return {
            # receives (or probes) look into the 'small' mailbox first and eager sends into the 'large' one first:
            # with smpi/async-small-thresh > 0 two messages / two receives of one stream can be matched out of order
            'mailbox_split_order': lambda plan, cls, msg: cls in ('overtake', 'recv-order', 'probe-order', 'stuck-match',
                                                                  # (a message delivered to the wrong receive of its stream also shows as
                                                                  #  wrong content / count / truncation flag of both receives)
                                                                  'bytes', 'count', 'count-type', 'trunc-spurious', 'trunc-missed',
                                                                  'psm-copy', 'status') and athr(plan) > 0,
            # same defect, any symptom that is about which message a receive got (content, source, count, truncation flag,
            # global buffers...): everything but the run not finishing or crashing
            'mailbox_split_any_symptom': lambda plan, cls, msg: athr(plan) > 0 and not cls.startswith(
                ('deadlock', 'hang', 'crash', 'abort', 'trunc-stall', 'layout-', 'pack', 'unpack', 'group-', 'comm-',
                 'inter-', 'psm-canary', 'global-leak')),
            # a receive smaller than the threshold waits in the small mailbox, the oversized send goes to the large one
            'trunc_small_recv_first': lambda plan, cls, msg: cls == 'trunc-stall' and athr(plan) > 0,
            # MPI_Testall completes individual requests although it returns flag=0; their status is lost
            'testall_consumes_requests': lambda plan, cls, msg: cls == 'status-testall',
            'datatype_bounds': lambda plan, cls, msg: cls.startswith('layout-'),
            'datatype_transfer': lambda plan, cls, msg: cls.startswith(('xfer', 'pack', 'unpack')),
            'datatype_memory': lambda plan, cls, msg: cls in ('crash-segv', 'abort') and bool(plan.get('types')),
            'zero_size_type_division': lambda plan, cls, msg: cls == 'crash-fpe',
            'group_intersection_order': lambda plan, cls, msg: cls == 'inter-order',
            'psm_offset_drops_private_blocks': lambda plan, cls, msg: cls == 'psm-copy',
            'psm_tail_pages_shared': lambda plan, cls, msg: cls == 'psm-canary',
        }

    def describe(self, plan, res):
        B = build(plan)
        return dict(np=plan['np'], cfg=plan['cfg'], platform=plan['plat']['kind'], n_items=len(plan['items']),
                    first_items=plan['items'][:4], rank0_ops=[' '.join([n] + [str(a) for a in args])[:80] for n, args, _ in B.ops[0][:25]],
                    signature=res['sig'], log_lines=res['nlines'])
