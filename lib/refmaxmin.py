"""Reference model and local characterisations for the LMM sharing solvers (properties C15, C16, C18).

This file restates the *property statements* of /verif/properties.jsonl, not the code of /repo:

* `weighted_maxmin(cnsts, vars)`: exact-rational (fractions.Fraction) weighted progressive filling for systems made
  of SHARED constraints only.  A variable i has a rate v_i >= 0, a penalty p_i > 0, an optional bound b_i, and
  consumes w_ij * v_i on constraint j of capacity C_j.  The "share" of i is s_i = v_i * p_i (SimGrid equalises
  value*penalty: twice the penalty, half the rate; the weight only says how much of the resource one unit of rate
  consumes).  All unfixed variables grow with a common share t; a constraint saturates when
  sum_fixed w_ij v_i + t * sum_unfixed w_ij / p_i = C_j, a variable is stopped by its bound when t = b_i * p_i.  The
  result is the unique allocation in which every variable is stopped by its bound or by a saturated constraint on
  which its share is maximal.

* `check_capacity` (C15), `check_maxmin_fair` / `check_bmf_fair` (C16), `check_concurrency` (C18): the local
  characterisations, on a state as parsed from lmmsim's dump (see lmmcommon.parse_output).

Tolerances (ASSUMPTIONS, recorded in the evidence):
  PREC = 1e-5 is SimGrid's default `precision/work-amount` (sg_precision_workamount).  The solvers themselves
  declare a constraint saturated when its remaining capacity is < PREC * capacity (maxmin.cpp: double_update(&remaining,
  ..., dynamic_bound * precision)), declare two bounds equal when they differ by < PREC in absolute value, and zero a
  constraint's remaining usage sum(w/p) when it is < PREC in absolute value.  Hence:
  - capacity (C15):   usage <= capacity * (1 + 2 PREC)     [the statement says "up to the configured precision"]
  - saturation (C16): usage >= capacity * (1 - 10 PREC); "largest share" and "below its bound" with the same slack
  - reference equality (C16, shared-only systems): |v - ref| <= 10 PREC * max(|v|, |ref|)
  The generators keep every weight/penalty ratio >= 1e-3 >> PREC and draw capacities, bounds, weights and penalties
  from small sets of "round" numbers, so that two different levels never fall within PREC of each other by accident:
  near-degenerate systems, where the precision mechanism legitimately changes the outcome, are out of scope.
  A semantic change smaller than these tolerances is invisible.
"""
from fractions import Fraction

PREC = 1e-5
CAP_F = 2.0
FAIR_F = 10.0
REF_F = 10.0


def F(x):
    """exact rational of a decimal literal / float as the generator wrote it (repr round-trips)"""
    if isinstance(x, Fraction):
        return x
    return Fraction(repr(float(x))) if not isinstance(x, str) else Fraction(x)


def weighted_maxmin(cnsts, vars_):
    """cnsts: {cid: capacity}; vars_: {vid: (penalty>0, bound or None, {cid: weight>0})}; numbers are Fractions.
    Variables must have at least one positive weight. Returns {vid: Fraction}."""
    value = {}
    unfixed = set(vars_)
    load = {c: Fraction(0) for c in cnsts}          # consumption of fixed variables
    while unfixed:
        usage = {c: Fraction(0) for c in cnsts}     # sum of w/p of unfixed variables
        for v in unfixed:
            p, _, el = vars_[v]
            for c, w in el.items():
                usage[c] += w / p
        best = None
        for c in sorted(cnsts):
            if usage[c] > 0:
                t = max(Fraction(0), cnsts[c] - load[c]) / usage[c]
                if best is None or t < best:
                    best = t
        for v in unfixed:
            p, b, _ = vars_[v]
            if b is not None:
                t = b * p
                if best is None or t < best:
                    best = t
        assert best is not None, 'variable without constraint nor bound'
        newly = set()
        for v in unfixed:
            p, b, _ = vars_[v]
            if b is not None and b * p == best:
                value[v] = b
                newly.add(v)
        for c in sorted(cnsts):
            if usage[c] > 0 and max(Fraction(0), cnsts[c] - load[c]) / usage[c] == best:
                for v in unfixed:
                    if v not in newly and c in vars_[v][2]:
                        value[v] = best / vars_[v][0]
                        newly.add(v)
        assert newly
        for v in newly:
            for c, w in vars_[v][2].items():
                load[c] += w * value[v]
        unfixed -= newly
    return value


# ---------------------------------------------------------------------------------------------------------
# A "state" (lmmcommon.parse_output) is dict(cn={cid: dict(bound, dyn, dynexp, pol, cb, limit, cur, slack, nen, ndis)},
#                                            vr={vid: dict(pen, staged, bound, value, el=[(cid, w), ...])})

def consuming(v):
    return v['pen'] > 0 and any(w > 0 for _, w in v['el'])


def cnst_stats(state):
    """per constraint: sum and max of w*v, max of v*p and of w*v*p over enabled elements with w>0, counted concurrency"""
    st = {c: dict(sum=0.0, mx=0.0, maxshare=0.0, maxwshare=0.0, counted=0, enabled=0) for c in state['cn']}
    # maxwshare: BMF's share = max_consumption_weight * value * penalty ("due to subflows, compare with the maximum
    # consumption": after repeated expands on one constraint the largest single contribution counts, bmf.cpp)
    for vid in sorted(state['vr']):
        v = state['vr'][vid]
        if v['pen'] <= 0:
            continue
        for c, w in v['el']:
            s = st[c]
            s['enabled'] += 1
            if state['cn'][c]['pol'] == 'W' or w >= 1:
                s['counted'] += 1
            if w > 0:
                u = w * v['value']
                s['sum'] += u
                s['mx'] = max(s['mx'], u)
                s['maxshare'] = max(s['maxshare'], v['value'] * v['pen'])
                s['maxwshare'] = max(s['maxwshare'], v['mw'][c] * v['value'] * v['pen'])
    return st


def capacity_of(c):
    """capacity "as adjusted by its sharing callback": the harness evaluates the callback it installed itself on
    (bound, concurrency_current) at dump time; FATPIPE constraints have no callback"""
    return c['bound'] if c['pol'] == 'F' else c['dynexp']


def check_capacity(state, solver):
    """C15 -> [(class, msg)]"""
    out = []
    eps = CAP_F * PREC
    st = cnst_stats(state)
    for cid in sorted(state['cn']):
        c = state['cn'][cid]
        s = st[cid]
        cap = capacity_of(c)
        if cap != cap or cap in (float('inf'), float('-inf')):
            out.append(('cap-nan', 'constraint %d capacity %r' % (cid, cap)))
            continue
        used = s['mx'] if c['pol'] == 'F' else s['sum']
        if not used <= cap * (1 + eps):
            if cap <= 0:
                cls = 'cap-zerocap'           # zero-capacity resource still used
            elif c['pol'] == 'F':
                cls = 'cap-fatpipe'
            elif c['dynexp'] != c['bound']:
                cls = 'cap-dynamic'           # exceeds the callback-adjusted capacity
            else:
                cls = 'cap-shared'
            out.append((cls, '%s: constraint %d (policy %s cb %d) used %.17g > capacity %.17g (bound %.17g, n=%d)' %
                        (solver, cid, c['pol'], c['cb'], used, cap, c['bound'], c['cur'])))
    for vid in sorted(state['vr']):
        v = state['vr'][vid]
        x = v['value']
        if x != x or x in (float('inf'), float('-inf')):
            out.append(('val-nan', '%s: variable %d value %r' % (solver, vid, x)))
            continue
        if v['pen'] <= 0:
            if x != 0:
                out.append(('val-disabled', '%s: variable %d has penalty 0 (staged %g) but value %.17g' %
                            (solver, vid, v['staged'], x)))
            continue
        if not consuming(v):
            continue
        if x < 0:
            out.append(('val-negative', '%s: variable %d value %.17g' % (solver, vid, x)))
        if v['bound'] > 0 and not x <= v['bound'] * (1 + eps):
            out.append(('val-bound', '%s: variable %d value %.17g > bound %.17g' % (solver, vid, x, v['bound'])))
    return out


def _saturated(c, s, eps):
    cap = capacity_of(c)
    used = s['mx'] if c['pol'] == 'F' else s['sum']
    return used >= cap * (1 - eps)


def check_maxmin_fair(state):
    """C16, maxmin: every enabled consuming variable below its bound uses a saturated constraint on which its
    penalty-weighted rate v*p is the largest"""
    out = []
    eps = FAIR_F * PREC
    st = cnst_stats(state)
    for vid in sorted(state['vr']):
        v = state['vr'][vid]
        if not consuming(v):
            continue
        if v['bound'] > 0 and v['value'] >= v['bound'] * (1 - eps):
            continue
        share = v['value'] * v['pen']
        ok = False
        for c, w in v['el']:
            if w > 0 and _saturated(state['cn'][c], st[c], eps) and share >= st[c]['maxshare'] * (1 - eps):
                ok = True
                break
        if not ok:
            why = []
            for c, w in v['el']:
                if w > 0:
                    cc = state['cn'][c]
                    why.append('c%d[%s used %.9g/%.9g maxshare %.9g]' %
                               (c, cc['pol'], st[c]['mx'] if cc['pol'] == 'F' else st[c]['sum'], capacity_of(cc),
                                st[c]['maxshare']))
            out.append(('mm-unfair', 'variable %d value %.17g penalty %g bound %g share %.9g: no saturated constraint '
                        'where its share is the largest: %s' % (vid, v['value'], v['pen'], v['bound'], share,
                                                               ' '.join(why))))
    return out


def check_bmf_fair(state):
    """C16, bmf: every consuming variable below its bound gets the largest penalty-weighted share (w*v*p: its share of
    the resource, weighted by its penalty; w = the largest single expand on that constraint, which is what BMF documents
    for sub-flows, = the weight when there was one expand) on at least one saturated constraint. Tolerances are absolute+relative since
    BmfSolver::is_bmf compares with an absolute sg_precision_workamount."""
    out = []
    st = cnst_stats(state)

    def tol(x):
        return FAIR_F * PREC * max(1.0, abs(x))
    for vid in sorted(state['vr']):
        v = state['vr'][vid]
        if not consuming(v):
            continue
        if v['bound'] > 0 and v['value'] >= v['bound'] - tol(v['bound']):
            continue
        ok = False
        for c, w in v['el']:
            if w <= 0:
                continue
            cc = state['cn'][c]
            cap = capacity_of(cc)
            used = st[c]['mx'] if cc['pol'] == 'F' else st[c]['sum']
            if used >= cap - tol(cap) and \
                    v['mw'][c] * v['value'] * v['pen'] >= st[c]['maxwshare'] - tol(st[c]['maxwshare']):
                ok = True
                break
        if not ok:
            why = []
            for c, w in v['el']:
                if w > 0:
                    cc = state['cn'][c]
                    why.append('c%d[%s used %.9g/%.9g mine %.9g max %.9g]' %
                               (c, cc['pol'], st[c]['mx'] if cc['pol'] == 'F' else st[c]['sum'], capacity_of(cc),
                                v['mw'][c] * v['value'] * v['pen'], st[c]['maxwshare']))
            out.append(('bmf-unfair', 'variable %d value %.17g penalty %g bound %g: no saturated constraint where its '
                        'weighted share is the largest: %s' % (vid, v['value'], v['pen'], v['bound'], ' '.join(why))))
    return out


def shared_only(state):
    """True if every constraint used (w>0) by an enabled variable is plain SHARED"""
    for v in state['vr'].values():
        if consuming(v):
            for c, w in v['el']:
                if w > 0 and state['cn'][c]['pol'] != 'S':
                    return False
    return True


def check_against_reference(state):
    """C16, maxmin on shared-only systems: equality with the exact weighted max-min allocation"""
    out = []
    cn = {c: F(x['bound']) for c, x in state['cn'].items()}
    vs = {}
    for vid, v in state['vr'].items():
        if consuming(v):
            el = {}
            for c, w in v['el']:
                if w > 0:
                    el[c] = el.get(c, Fraction(0)) + F(w)
            vs[vid] = (F(v['pen']), F(v['bound']) if v['bound'] > 0 else None, el)
    if not vs:
        return out
    ref = weighted_maxmin(cn, vs)
    for vid in sorted(vs):
        r = float(ref[vid])
        x = state['vr'][vid]['value']
        if not abs(x - r) <= REF_F * PREC * max(abs(x), abs(r)):
            out.append(('mm-ref', 'variable %d value %.17g but the weighted max-min fair allocation gives %.17g (%s)' %
                        (vid, x, r, ref[vid])))
    return out


def check_concurrency(state):
    """C18 on one state: counter == number of counting enabled elements <= limit; staged variables have a constraint
    without free slot; a variable is never both enabled and staged"""
    out = []
    st = cnst_stats(state)
    for cid in sorted(state['cn']):
        c = state['cn'][cid]
        s = st[cid]
        if c['cur'] != s['counted']:
            out.append(('conc-counter', 'constraint %d: concurrency counter %d but %d enabled activities count '
                        '(limit %d)' % (cid, c['cur'], s['counted'], c['limit'])))
        if c['limit'] >= 0 and s['counted'] > c['limit']:
            out.append(('conc-limit', 'constraint %d: %d enabled activities count towards limit %d' %
                        (cid, s['counted'], c['limit'])))
        if c['nen'] != s['enabled']:
            out.append(('conc-elemset', 'constraint %d: %d elements in its enabled set but %d belong to enabled '
                        'variables' % (cid, c['nen'], s['enabled'])))
    for vid in sorted(state['vr']):
        v = state['vr'][vid]
        if v['staged'] > 0:
            if v['pen'] > 0:
                out.append(('staged-enabled', 'variable %d enabled (penalty %g) and staged (%g)' %
                            (vid, v['pen'], v['staged'])))
            slacks = [state['cn'][c]['limit'] - state['cn'][c]['cur'] for c, _ in v['el'] if state['cn'][c]['limit'] >= 0]
            if not slacks or min(slacks) > 0:
                out.append(('staged-starved', 'variable %d is staged (penalty %g waiting) but every resource it uses '
                            'has a free slot (slacks %s)' % (vid, v['staged'], slacks)))
    return out
