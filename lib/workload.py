"""Seeded exec / comm / io workloads on generated platforms (shared by C19, C21, C22, C23)."""
import gen
from rng import Rng


def platform(plan, r, nh=None, multicore=True, disks=True, links=True, pstates=False):
    nh = nh or r.randint(2, 4)
    plan['hosts'] = []
    for i in range(nh):
        speeds = [r.choice([1e9, 2e9, 0.5e9])]
        if pstates:
            speeds = [speeds[0], speeds[0] / 2, speeds[0] / 4][:r.randint(1, 3)]
        h = dict(name='h%d' % i, cores=r.choice([1, 1, 2, 4]) if multicore else 1, speeds=speeds)
        if disks:
            h['disks'] = [dict(name='d_h%d' % i, rbw=r.choice([1e6, 4e6]), wbw=r.choice([1e6, 2e6]))]
        plan['hosts'].append(h)
    plan['links'], plan['routes'] = [], []
    if links:
        n = 0
        for i in range(nh):
            for j in range(i + 1, nh):
                if r.chance(0.5) and n > 0:
                    # reuse a link already declared (shared backbone) in front of a private one
                    ln = 'l%d' % n
                    plan['links'].append(dict(name=ln, bw=r.choice([1e6, 1e7, 1e8]), lat=r.choice([0.0, 0.001, 0.125]),
                                              policy=r.choice(['SHARED', 'SHARED', 'FATPIPE'])))
                    plan['routes'].append(dict(src='h%d' % i, dst='h%d' % j, links=['l0', ln], sym=True))
                else:
                    ln = 'l%d' % n
                    plan['links'].append(dict(name=ln, bw=r.choice([1e6, 1e7, 1e8]), lat=r.choice([0.0, 0.001, 0.125]),
                                              policy='SHARED'))
                    plan['routes'].append(dict(src='h%d' % i, dst='h%d' % j, links=[ln], sym=True))
                n += 1
    return nh


def actors(plan, r, nh, nact=None, suspend=True, bounds=True, prios=True, io=True, comm=True, max_ops=6, threads=False):
    nact = nact or r.randint(2, 5)
    sn = [0]

    def slot():
        sn[0] += 1
        return 'x%d' % sn[0]
    all_execs = []
    for ai in range(nact):
        hi = r.below(nh)
        host = 'h%d' % hi
        ops = []
        mine = []
        execs = []
        for _ in range(r.randint(1, max_ops)):
            c = r.below(12)
            if r.chance(0.3):
                ops.append(['sleep', gen.think(r, 0.2)])
            if c < 4:
                e = ['exec', r.randint(1, 8) * 0.25e9]
                if bounds and r.chance(0.2):
                    e.append('bound=%r' % r.choice([0.25e9, 0.5e9, 1e9]))
                if prios and r.chance(0.2):
                    e.append('prio=%r' % r.choice([0.5, 2.0, 4.0]))
                if threads and r.chance(0.2):
                    e.append('threads=%d' % r.randint(2, 3))
                ops.append(e)
            elif c < 7:
                s = slot()
                e = ['exec_async', s, r.randint(1, 8) * 0.25e9]
                if bounds and r.chance(0.2):
                    e.append('bound=%r' % r.choice([0.25e9, 0.5e9, 1e9]))
                if prios and r.chance(0.2):
                    e.append('prio=%r' % r.choice([0.5, 2.0]))
                nth = 0
                if threads and r.chance(0.25):
                    nth = r.randint(2, 3)
                    e.append('threads=%d' % nth)
                ops.append(e)
                mine.append(s)
                execs.append(s)
                all_execs.append((s, nth))
                if nth and prios and r.chance(0.4):
                    # a priority update that leaves the share of a multi-thread exec unchanged (priority == thread count),
                    # at once or a little later: nothing is recomputed, the planned completion must survive
                    if r.chance(0.5):
                        ops.append(['sleep', r.randint(1, 3) * 0.125])
                    ops.append(['set_prio', s, float(nth)])
            elif c < 9 and comm and nh > 1:
                o = 'h%d' % ((hi + 1 + r.below(nh - 1)) % nh)
                if r.chance(0.5):
                    ops.append(['sendto', '-', host, o, r.choice([1e5, 1e6, 4e6])])
                else:
                    s = slot()
                    ops.append(['sendto', s, host, o, r.choice([1e5, 1e6, 4e6])])
                    mine.append(s)
            elif c < 10 and io:
                ops.append(['io', 'd_' + host, r.choice([1e5, 1e6, 2e6]), r.choice(['read', 'write'])])
            elif execs and suspend and r.chance(0.5):
                # (communications are not suspended here: suspending one during its latency phase is the listed
                # finding C19/suspend-in-latency)
                s = r.choice(execs)
                if prios and r.chance(0.4):
                    # a priority change and a suspend of the same activity at one date (two updates in one round)
                    ops.append(['set_prio', s, r.choice([0.5, 2.0, 4.0])])
                # (half of the time without reading the remaining work back: that read forces a lazy update)
                quiet = ['noobs'] if r.chance(0.5) else []
                ops.append(['asuspend', s] + quiet)
                ops.append(['sleep', r.randint(1, 4) * 0.25])
                ops.append(['aresume', s] + quiet)
            elif mine and prios:
                # (values that coincide with thread counts and with the current priority included: an update that
                # changes nothing must not lose the completion event either)
                ops.append(['set_prio', r.choice(mine), r.choice([0.5, 1.0, 2.0, 3.0])])
            else:
                ops.append(['sleep', gen.think(r, 0.1)])
        for s in mine:
            ops.append(['wait', s])
        plan['actors'].append(dict(id='a%d' % ai, host=host, ops=ops))
    if prios and all_execs and r.chance(0.5):
        # a tuner living on a host of its own updates the priority of other actors' executions while their owners are
        # blocked waiting (nothing else touches the CPU of those hosts in the meantime); skipped by the harness when the
        # activity is not running at that date
        plan['hosts'].append(dict(name='tun', cores=1, speeds=[1e9]))
        tops = []
        for _ in range(r.randint(1, 3)):
            tops.append(['sleep', r.randint(1, 6) * 0.125])
            s, nth = r.choice(all_execs)
            tops.append(['set_prio', s, float(nth) if nth and r.chance(0.6) else r.choice([0.5, 1.0, 2.0, 3.0])])
        plan['actors'].append(dict(id='tun', host='tun', ops=tops))


def completion_dates(recs):
    """(aid, idx, kind) -> return clock of every exec/comm/io/wait op, and finish dates of activities"""
    out = {}
    for r in recs:
        if r.t == 'R' and r.kind in ('exec', 'sendto', 'io', 'wait', 'ptask', 'sleep') and r.kv.get('skip') != '1':
            out[(r.aid, r.idx, r.kind)] = (r.clock, r.kv.get('exc'))
    return out
