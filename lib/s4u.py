"""Engine A/A' glue: plan (JSON-able dict) -> s4usim text, run, parse the event log."""
import os

import dst

S4USIM = dst.BIN + '/s4usim'


def fnum(x):
    if isinstance(x, float):
        return repr(x)
    return str(x)


def plan_text(plan):
    L = []
    for c in plan.get('cfg', []):
        L.append('cfg ' + c)
    for k in sorted(plan.get('opts', {})):
        v = plan['opts'][k]
        if isinstance(v, (list, tuple)):
            v = ' '.join(str(x) for x in v)
        L.append('opt %s %s' % (k, v))
    for h in plan.get('hosts', []):
        L.append('host %s %d %s' % (h['name'], h.get('cores', 1), ','.join(fnum(s) for s in h['speeds'])))
        for k, v in h.get('props', {}).items():
            L.append('hprop %s %s %s' % (h['name'], k, v))
        if h.get('pstate'):
            L.append('hpstate %s %d' % (h['name'], h['pstate']))
        if 'conc' in h:
            L.append('hconc %s %d' % (h['name'], h['conc']))
        for d in h.get('disks', []):
            props = ' '.join('%s %s' % (k, v) for k, v in d.get('props', {}).items())
            L.append('disk %s %s %s %s %s' % (h['name'], d['name'], fnum(d['rbw']), fnum(d['wbw']), props))
    for l in plan.get('links', []):
        L.append('link %s %s %s %s' % (l['name'], fnum(l['bw']), fnum(l['lat']), l.get('policy', 'SHARED')))
        for k, v in l.get('props', {}).items():
            L.append('lprop %s %s %s' % (l['name'], k, v))
        if 'conc' in l:
            L.append('lconc %s %d' % (l['name'], l['conc']))
    for r in plan.get('routes', []):
        L.append('route %s %s %d %s' % (r['src'], r['dst'], 1 if r.get('sym', True) else 0, ' '.join(r['links'])))
    for p in plan.get('profiles', []):
        pts = ' '.join('%s %s' % (fnum(d), fnum(v)) for d, v in p['points'])
        L.append('%s %s %s %s %s' % ('hprofile' if p['on'] == 'host' else 'lprofile', p['kind'], p['name'],
                                    fnum(p.get('period', -1.0)), pts))
    o = plan.get('objects', {})
    for n, rec in o.get('mutex', []):
        L.append('mutex %s %d' % (n, rec))
    for n, c in o.get('sem', []):
        L.append('sem %s %d' % (n, c))
    for n in o.get('cv', []):
        L.append('cv %s' % n)
    for n, c in o.get('bar', []):
        L.append('bar %s %d' % (n, c))
    for n in o.get('mbox', []):
        L.append('mbox %s' % n)
    for n in o.get('mq', []):
        L.append('mq %s' % n)
    for a in plan.get('actors', []):
        fl = []
        for k in ('daemon', 'autorestart', 'template'):
            if a.get(k):
                fl.append(k)
        if a.get('killtime') is not None:
            fl.append('killtime=' + fnum(a['killtime']))
        if a.get('onexit'):
            fl.append('onexit=%d' % a['onexit'])
        if a.get('stack'):
            fl.append('stack=%d' % a['stack'])
        L.append('actor %s %s %s' % (a['id'], a['host'], ' '.join(fl)))
    for op in plan.get('mops', []):
        L.append('mop %s' % ' '.join(fnum(x) for x in op))
    for a in plan.get('actors', []):
        for op in a['ops']:
            L.append('op %s %s' % (a['id'], ' '.join(fnum(x) for x in op)))
    return '\n'.join(L) + '\n'


class Rec:
    __slots__ = ('t', 'seq', 'clock', 'aid', 'inc', 'idx', 'kind', 'args', 'kv', 'raw')

    def __repr__(self):
        return self.raw


def _kv(tokens):
    d = {}
    for t in tokens:
        i = t.find('=')
        if i > 0:
            d[t[:i]] = t[i + 1:]
    return d


def parse_log(text):
    """-> list of Rec in file order"""
    out = []
    for line in text.split('\n'):
        if not line:
            continue
        tk = line.split(' ')
        r = Rec()
        r.raw = line
        r.t = tk[0]
        r.aid = r.inc = r.idx = r.kind = None
        r.args = []
        r.kv = {}
        r.seq = -1
        r.clock = None
        try:
            if r.t in ('C', 'R'):
                r.seq = int(tk[1])
                r.clock = float.fromhex(tk[2])
                r.aid = tk[3]
                r.inc = int(tk[4])
                r.idx = int(tk[5])
                r.kind = tk[6]
                r.args = tk[7:]
                r.kv = _kv(tk[7:])
            elif r.t == 'S':
                r.seq = int(tk[1])
                r.clock = float.fromhex(tk[2])
                r.kind = tk[3]
                r.kv = _kv(tk[4:])
                r.aid = r.kv.get('aid')
            elif r.t == 'B':
                r.seq = int(tk[1])
                r.clock = float.fromhex(tk[2])
                r.kind = 'subround'
            elif r.t == 'X':
                r.seq = int(tk[1])
                r.kind = 'fatal'
                r.kv = _kv(tk[2:])
            else:
                r.kind = r.t
                r.args = tk[1:]
                r.kv = _kv(tk[1:])
        except (ValueError, IndexError):
            r.t = '?'
        out.append(r)
    return out


def hx(s):
    return float.fromhex(s)


def run_plan(plan, scratch, extra_args=(), timeout=60, env=None, want_stderr=False):
    """-> dict(rc, timed_out, log (text), recs, stderr)"""
    if not os.path.exists(S4USIM):
        raise dst.Infra('s4usim not built')
    pf = '%s/plan.%d.txt' % (scratch, os.getpid())
    extra = []
    for name, content in plan.get('contentfiles', {}).items():
        cf = '%s/%s.%d' % (scratch, name, os.getpid())
        with open(cf, 'w') as f:
            f.write(content)
        extra.append((name, cf))
    txt = plan_text(plan)
    for name, cf in extra:
        txt = txt.replace('@' + name + '@', os.path.basename(cf))  # resolved against the cwd by simgrid
    with open(pf, 'w') as f:
        f.write(txt)
    cmd = [S4USIM, pf, '--log=no_loc', '--log=root.fmt:[%r]%e[%a]%e[%c/%p]%e%m%n'] + list(extra_args)
    rc, out, err, to = dst.run_proc(cmd, timeout=timeout, env=env, cwd=scratch)
    for f in [pf] + [cf for _, cf in extra]:
        try:
            os.unlink(f)
        except OSError:
            pass
    text = out.decode('utf-8', 'replace')
    res = dict(rc=rc, timed_out=to, log=text)
    if want_stderr:
        res['stderr'] = err.decode('utf-8', 'replace')
    else:
        res['stderr_tail'] = err.decode('utf-8', 'replace')[-1500:]
    return res
