"""Checker of Paje traces driven by the trace's own %EventDef header."""
import shlex


def check(text, max_viol=6):
    """-> (violations [(class,msg)], stats dict)"""
    defs = {}       # id -> (name, [field names])
    cur = None
    v = []
    st = dict(events=0, containers=0, destroyed=0, pushes=0, pops=0, max_depth=0, links=0, left_pushed=0)
    types = {'0': 'root'}      # alias -> kind
    values = set()
    cont = {'0': 'alive'}
    depth = {}
    last_t = None
    lineno = 0

    def bad(cls, msg):
        if len(v) < max_viol:
            v.append((cls, 'line %d: %s' % (lineno, msg)))
    for line in text.split('\n'):
        lineno += 1
        if not line or line[0] == '#':
            continue
        if line[0] == '%':
            tk = line[1:].split()
            if not tk:
                continue
            if tk[0] == 'EventDef':
                cur = (tk[1], [])
                defs[tk[2]] = cur
            elif tk[0] == 'EndEventDef':
                cur = None
            elif cur is not None:
                cur[1].append(tk[0])
            continue
        try:
            tk = shlex.split(line)
        except ValueError:
            bad('syntax', 'unbalanced quotes: %r' % line[:80])
            continue
        if tk[0] not in defs:
            bad('undefined_event', 'event id %s has no %%EventDef' % tk[0])
            continue
        name, fields = defs[tk[0]]
        if len(tk) - 1 < len(fields):
            bad('syntax', '%s with %d fields, %d declared' % (name, len(tk) - 1, len(fields)))
            continue
        f = dict(zip(fields, tk[1:]))
        if 'Type' not in f:   # the 'basic' format names the type field after its kind
            for alt in ('ContainerType', 'EntityType'):
                if alt in f:
                    f['Type'] = f[alt]
        st['events'] += 1
        if 'Time' in f:
            try:
                t = float(f['Time'])
            except ValueError:
                bad('syntax', 'bad date %r' % f['Time'])
                continue
            if last_t is not None and t < last_t - 1e-9:
                bad('time_backwards', '%s at %r after an event at %r' % (name, t, last_t))
            last_t = t if last_t is None else max(last_t, t)
        if name.startswith('PajeDefine') and name.endswith('Type'):
            if f.get('Type') not in types:
                bad('undefined_type', '%s %s refers to undefined parent type %s' % (name, f.get('Alias'), f.get('Type')))
            for k in ('StartContainerType', 'EndContainerType'):
                if k in f and f[k] not in types:
                    bad('undefined_type', '%s refers to undefined container type %s' % (name, f[k]))
            if f.get('Alias') in types:
                bad('redefined', 'type alias %s defined twice' % f.get('Alias'))
            types[f.get('Alias')] = name
        elif name == 'PajeDefineEntityValue':
            if f.get('Type') not in types:
                bad('undefined_type', 'entity value %s of undefined type %s' % (f.get('Alias'), f.get('Type')))
            values.add(f.get('Alias'))
        elif name == 'PajeCreateContainer':
            if f.get('Type') not in types:
                bad('undefined_type', 'container %s of undefined type %s' % (f.get('Name'), f.get('Type')))
            if f.get('Container') not in cont:
                bad('undefined_container', 'container %s created in unknown container %s' % (f.get('Name'), f.get('Container')))
            elif cont[f['Container']] == 'dead':
                bad('destroyed_container', 'container %s created in destroyed container %s' % (f.get('Name'), f['Container']))
            if cont.get(f.get('Alias')) == 'alive':
                bad('redefined', 'container alias %s created twice' % f.get('Alias'))
            cont[f.get('Alias')] = 'alive'
            st['containers'] += 1
        elif name == 'PajeDestroyContainer':
            c = f.get('Name')
            if c not in cont:
                bad('undefined_container', 'destroying unknown container %s' % c)
            elif cont[c] == 'dead':
                bad('destroyed_container', 'container %s destroyed twice' % c)
            cont[c] = 'dead'
            st['destroyed'] += 1
            st['left_pushed'] += sum(d for (cc, _), d in depth.items() if cc == c and d > 0)
        else:
            for k in ('Container', 'StartContainer', 'EndContainer'):
                if k in f:
                    if f[k] not in cont:
                        bad('undefined_container', '%s uses unknown container %s' % (name, f[k]))
                    elif cont[f[k]] == 'dead':
                        bad('destroyed_container', '%s uses container %s after its destruction' % (name, f[k]))
            if 'Type' in f and f['Type'] not in types:
                bad('undefined_type', '%s uses undefined type %s' % (name, f['Type']))
            if name in ('PajePushState', 'PajeSetState', 'PajeNewEvent') and 'Value' in f and f['Value'] not in values:
                bad('undefined_value', '%s uses undefined value %s' % (name, f['Value']))
            key = (f.get('Container'), f.get('Type'))
            if name == 'PajePushState':
                depth[key] = depth.get(key, 0) + 1
                st['pushes'] += 1
                st['max_depth'] = max(st['max_depth'], depth[key])
            elif name == 'PajePopState':
                st['pops'] += 1
                if depth.get(key, 0) <= 0:
                    bad('pop_without_push', 'PajePopState on container %s type %s with an empty state stack' % key)
                else:
                    depth[key] -= 1
            elif name in ('PajeSetState', 'PajeResetState'):
                depth[key] = 1 if name == 'PajeSetState' else 0
            elif name in ('PajeStartLink', 'PajeEndLink'):
                st['links'] += 1
    return v, st
