"""SplitMix64 streams: every random choice of the framework derives from VERIF_SEED through these.
No use of Python's `random`, `hash()` or set/dict-of-string iteration order in generation paths."""

M64 = (1 << 64) - 1


def _mix(z):
    z = (z + 0x9E3779B97F4A7C15) & M64
    z = ((z ^ (z >> 30)) * 0xBF58476D1CE4E5B9) & M64
    z = ((z ^ (z >> 27)) * 0x94D049BB133111EB) & M64
    return z ^ (z >> 31)


def _strhash(s):
    h = 0xCBF29CE484222325
    for ch in s.encode():
        h = ((h ^ ch) * 0x100000001B3) & M64
    return h


def derive(seed, *names):
    """Derive an independent 64-bit seed from a seed and a path of names/ints."""
    x = _mix(seed & M64)
    for n in names:
        k = _strhash(n) if isinstance(n, str) else (n & M64)
        x = _mix(x ^ k)
    return x


class Rng:
    def __init__(self, seed, *names):
        self.s = derive(seed, *names)

    def u64(self):
        self.s = (self.s + 0x9E3779B97F4A7C15) & M64
        z = self.s
        z = ((z ^ (z >> 30)) * 0xBF58476D1CE4E5B9) & M64
        z = ((z ^ (z >> 27)) * 0x94D049BB133111EB) & M64
        return z ^ (z >> 31)

    def below(self, n):
        assert n > 0
        return self.u64() % n

    def randint(self, a, b):
        return a + self.below(b - a + 1)

    def random(self):
        return (self.u64() >> 11) / float(1 << 53)

    def chance(self, p):
        return self.random() < p

    def choice(self, seq):
        return seq[self.below(len(seq))]

    def wchoice(self, pairs):
        """pairs: list of (item, weight>=0)"""
        tot = sum(w for _, w in pairs)
        x = self.random() * tot
        for it, w in pairs:
            x -= w
            if x < 0:
                return it
        return pairs[-1][0]

    def shuffle(self, lst):
        for i in range(len(lst) - 1, 0, -1):
            j = self.below(i + 1)
            lst[i], lst[j] = lst[j], lst[i]
        return lst

    def sample(self, seq, k):
        l = list(seq)
        self.shuffle(l)
        return l[:k]

    def dyadic(self, lo_exp=-3, hi_exp=3, mant=8):
        """a dyadic rational k/8 * 2^e: exact in double, sums stay exact for a long time"""
        return self.randint(1, mant) / 8.0 * (2.0 ** self.randint(lo_exp, hi_exp))
